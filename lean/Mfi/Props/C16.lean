/-
  C16 — Account structure: one side per bank, sorted, compatible tags, bounded.
  Theorems about Mfi/Model/Account.lean (diffed by the `account` family against the real find_or_create /
  sort_balances / validate_asset_tags / can_be_closed) and Mfi/Model/Bank.lean (one-side invariant of the
  wrapper operations), plus `decide`d facts over the regenerated handler skeletons and constraint table.
  The instruction-level monitor (real dispatch) re-checks the same structure after every instruction.
-/
import Mfi.Model.Account
import Mfi.Model.Transfer
import Mfi.Gen.TxLists
import Mfi.Model.Bank
import Mfi.Lemmas.FxL
import Mfi.Lemmas.ResL
import Mfi.Lemmas.BankL
import Mfi.Lemmas.SkelL
import Mfi.Lemmas.AccL
import Mfi.Props.C03
import Mfi.Lemmas.WorldL
import Mfi.Lemmas.WorldShape
import Mfi.Lemmas.WorldTxSolv

namespace Mfi.Props.C16
open Mfi Mfi.Account Mfi.Gen

/-! ### the position array -/

/-- distinct active slots have distinct banks -/
def NoDup (s : List Slot) : Prop :=
  ∀ (i j : Nat) (x y : Slot), s[i]? = some x → s[j]? = some y → i ≠ j → x.active = true → y.active = true → x.bank ≠ y.bank

theorem findIdx_none {s : List Slot} {bank : Nat} (h : findIdx s bank = none) :
    ∀ x ∈ s, x.active = true → x.bank ≠ bank := by
  intro x hx ha hb
  unfold findIdx at h
  rw [List.findIdx?_eq_none_iff] at h
  have := h x hx
  simp [ha, hb] at this

theorem firstEmpty_some {s : List Slot} {i : Nat} (h : firstEmpty s = some i) :
    ∃ x, s[i]? = some x ∧ x.active = false := by
  unfold firstEmpty at h
  rw [List.findIdx?_eq_some_iff_getElem] at h
  obtain ⟨hi, hp, _⟩ := h
  exact ⟨s[i], by simp [hi], by simpa using hp⟩

/-- **find_or_create keeps one position per bank**: it returns the existing slot of the bank, or opens
    a fresh empty slot carrying the bank's asset tag; no second slot for a bank can appear. -/
theorem findOrCreate_nodup {s s' : List Slot} {bank : Nat} {tag now : Int} {i : Nat}
    (h : findOrCreate s bank tag now = .ok (s', i)) (hn : NoDup s) :
    NoDup s' ∧ s'.length = s.length ∧
    (∃ x, s'[i]? = some x ∧ x.active = true ∧ x.bank = bank) := by
  unfold findOrCreate at h
  cases hf : findIdx s bank with
  | some k =>
    simp only [hf] at h
    injection h with h
    injection h with h1 h2
    subst h1; subst h2
    refine ⟨hn, rfl, ?_⟩
    unfold findIdx at hf
    rw [List.findIdx?_eq_some_iff_getElem] at hf
    obtain ⟨hk, hp, _⟩ := hf
    simp only [Bool.and_eq_true, beq_iff_eq] at hp
    exact ⟨s[k], by simp [hk], hp.1, hp.2⟩
  | none =>
    simp only [hf] at h
    split at h
    · cases h
    · cases he : firstEmpty s with
      | none => simp [he] at h
      | some k =>
        simp only [he] at h
        injection h with h
        injection h with h1 h2
        subst h1; subst h2
        obtain ⟨e, hke, hea⟩ := firstEmpty_some he
        have hk : k < s.length := by
          by_contra hh
          have : s[k]? = none := List.getElem?_eq_none (by omega)
          rw [this] at hke; cases hke
        have hfresh := findIdx_none hf
        refine ⟨?_, by simp, ?_⟩
        · intro a b x y hx hy hab hxa hya
          rw [List.getElem?_set] at hx hy
          by_cases hak : k = a
          · subst hak
            simp only [↓reduceIte, hk] at hx
            injection hx with hx
            have hbk : ¬ k = b := hab
            simp only [hbk, ↓reduceIte] at hy
            rw [← hx]
            simp only
            intro hb
            exact hfresh y (List.mem_of_getElem? hy) hya hb.symm
          · simp only [hak, ↓reduceIte] at hx
            by_cases hbk : k = b
            · subst hbk
              simp only [↓reduceIte, hk] at hy
              injection hy with hy
              rw [← hy]
              simp only
              exact hfresh x (List.mem_of_getElem? hx) hxa
            · simp only [hbk, ↓reduceIte] at hy
              exact hn a b x y hx hy hab hxa hya
        · exact ⟨{ active := true, bank, tag, a := 0, l := 0, emis := 0, lastUpdate := now }, by rw [List.getElem?_set]; simp [hk], rfl, rfl⟩

/-- a freshly opened position carries the bank's asset tag and is empty -/
theorem findOrCreate_fresh_tag {s s' : List Slot} {bank : Nat} {tag now : Int} {i : Nat}
    (h : findOrCreate s bank tag now = .ok (s', i)) (hnone : findIdx s bank = none) :
    s'[i]? = some { active := true, bank, tag, a := 0, l := 0, emis := 0, lastUpdate := now } := by
  unfold findOrCreate at h
  simp only [hnone] at h
  split at h
  · cases h
  · cases he : firstEmpty s with
    | none => simp [he] at h
    | some k =>
      simp only [he] at h
      injection h with h
      injection h with h1 h2
      subst h1; subst h2
      obtain ⟨e, hke, _⟩ := firstEmpty_some he
      have hk : k < s.length := by
        by_contra hh
        have : s[k]? = none := List.getElem?_eq_none (by omega)
        rw [this] at hke; cases hke
      rw [List.getElem?_set]; simp [hk]

/-- **integration cap**: a new Kamino/Drift/Solend position is refused when the account already holds
    MAX_INTEGRATION_POSITIONS (8) of them -/
theorem integration_cap {s : List Slot} {bank : Nat} {tag now : Int}
    (hnone : findIdx s bank = none) (hint : isIntegrationTag tag = true) (hfull : 8 ≤ integrationCount s) :
    findOrCreate s bank tag now = .error (.err E.IntegrationPositionLimitExceeded) := by
  unfold findOrCreate
  simp only [hnone, hint, Bool.true_and]
  have : ¬ integrationCount s < MAX_INTEGRATION_POSITIONS.toNat := by
    have : MAX_INTEGRATION_POSITIONS.toNat = 8 := by decide
    omega
  simp [this]

/-- the account never holds more than 16 positions: the array length is fixed -/
theorem findOrCreate_length {s s' : List Slot} {bank : Nat} {tag now : Int} {i : Nat}
    (h : findOrCreate s bank tag now = .ok (s', i)) : s'.length = s.length := by
  unfold findOrCreate at h
  split at h
  · injection h with h; injection h with h1 _; rw [← h1]
  · split at h
    · cases h
    · split at h
      · cases h
      · injection h with h; injection h with h1 _; rw [← h1]; simp

/-! ### sort_balances -/

theorem le_trans' : ∀ (a b c : Slot), decide (a.bank ≥ b.bank) = true → decide (b.bank ≥ c.bank) = true →
    decide (a.bank ≥ c.bank) = true := by
  intro a b c h1 h2; simp only [decide_eq_true_eq] at *; omega

theorem le_total' : ∀ (a b : Slot), (decide (a.bank ≥ b.bank) || decide (b.bank ≥ a.bank)) = true := by
  intro a b; simp only [Bool.or_eq_true, decide_eq_true_eq]; omega

/-- **sorted as the risk engine expects**: after `sort_balances` the bank keys are non-increasing along the
    array (inactive slots carry the zero key and therefore come last), and the array is a permutation of
    what it was — no position is created, lost or altered by sorting. -/
theorem sort_sorted_perm (s : List Slot) :
    (sortBalances s).Pairwise (fun x y => x.bank ≥ y.bank) ∧ (sortBalances s).Perm s := by
  constructor
  · have := List.pairwise_mergeSort le_trans' le_total' s
    unfold sortBalances
    exact this.imp (by intro a b h; simpa using h)
  · exact List.mergeSort_perm s _

/-- sorting an already sorted array changes nothing (idempotence) -/
theorem sort_idempotent (s : List Slot) : sortBalances (sortBalances s) = sortBalances s := by
  unfold sortBalances
  exact List.mergeSort_of_pairwise (List.pairwise_mergeSort le_trans' le_total' s)

/-! ### asset-tag compatibility -/

/-- **no staked/default mixing**: if `validate_asset_tags` accepts the bank, then opening a position in
    it cannot create an account that holds both a staked-collateral position and a default-class one. -/
theorem tags_no_mix {s : List Slot} {tag : Int} (h : validateAssetTags s tag = .ok ())
    (hinv : ¬ (hasStaked s = true ∧ hasDefault s = true)) :
    ¬ ((hasStaked s || decide (tag = ASSET_TAG_STAKED)) = true ∧ (hasDefault s || isDefaultLike tag) = true) := by
  unfold validateAssetTags at h
  split at h
  · cases h
  · split at h
    · cases h
    · split at h
      · cases h
      · rename_i h1 h2
        simp only [Bool.and_eq_true, not_and, Bool.not_eq_true] at h1 h2
        intro ⟨ha, hb⟩
        simp only [Bool.or_eq_true, decide_eq_true_eq] at ha hb
        have hdl_not_staked : isDefaultLike ASSET_TAG_STAKED = false := by decide
        rcases ha with ha | ha <;> rcases hb with hb | hb
        · exact hinv ⟨ha, hb⟩
        · have := h1 hb; rw [ha] at this; cases this
        · have : (tag == ASSET_TAG_STAKED) = true := by simp [ha]
          have := h2 this; rw [hb] at this; cases this
        · rw [ha, hdl_not_staked] at hb; cases hb

/-! ### one side per bank (share accounting) -/
open Mfi.Bank Mfi.Fx in
/-- **one_side_increase**: a successful balance increase never leaves a position with ≥ 1 share on both
    sides: if debt remains the deposit side was not touched, and if the deposit side grew the debt was
    repaid down to a truncation residue of at most two 2^-48 ulps (share values ≥ 1, as liability share
    values always are). -/
theorem one_side_increase {b0 b' : Bank} {x0 x' : Balance} {now delta : Int} {t : IncType}
    (h : increaseBalance b0 x0 now delta t = .ok (b', x'))
    (hd : 0 ≤ delta) (hasv : 0 < b0.asv) (hlsv : ONE ≤ b0.lsv) (ha : 0 ≤ x0.a) (hl : 0 ≤ x0.l)
    (hinv : x0.a < ONE ∨ x0.l < ONE) : x'.a < ONE ∨ x'.l < ONE := by
  obtain ⟨b1, x1, curL, d, aInc, lDec, b2, b3, hc, hcur, hsub, _, _, has, hb2, hld, hb3, _, _, _, _, hx', _⟩ :=
    (increase_spec h).ex
  obtain ⟨⟨r, hb1⟩, ⟨e, hx1⟩⟩ := claim_frame hc
  obtain ⟨e2, _, _⟩ := changeAsset_frame hb2
  have ed := (sub?_some hsub).1
  have ecur := (mul?_some (math_ok hcur)).1
  have hx1l : x1.l = x0.l := by rw [hx1]
  have hx1a : x1.a = x0.a := by rw [hx1]
  have hb1asv : b1.asv = b0.asv := by rw [hb1]
  have hb1lsv : b1.lsv = b0.lsv := by rw [hb1]
  have hb2lsv : b2.lsv = b0.lsv := by rw [e2, hb1]
  have hOne := ONE_pos
  have hlsv0 : 0 < b0.lsv := by omega
  have hcur0 : 0 ≤ curL := by
    rw [ecur, hx1l, hb1lsv]; exact Int.ediv_nonneg (mul_nonneg hl (le_of_lt hlsv0)) (le_of_lt ONE_pos)
  have sa := Mfi.Props.C03.assetShares_spec (b := b1) (v := max d 0) (by omega) (by rw [hb1asv]; exact hasv) has
  have sl := Mfi.Props.C03.liabShares_spec (b := b2) (v := min curL delta) (by omega) (by rw [hb2lsv]; exact hlsv0) hld
  rw [hb1asv] at sa
  rw [hb2lsv] at sl
  rw [hx']
  simp only [hx1a, hx1l]
  by_cases hcase : delta ≤ curL
  · -- nothing is credited to the deposit side
    have hmax : max d 0 = 0 := by omega
    rw [hmax] at sa
    have : aInc = 0 := by
      have h1 := sa.1; have h2 := sa.2.2
      by_contra hne
      have : 1 ≤ aInc := by omega
      nlinarith
    rcases hinv with hi | hi
    · left; omega
    · right; have := sl.2.2; omega
  · -- the whole debt (curL) is repaid: the residue is below ONE
    right
    have hmin : min curL delta = curL := by omega
    rw [hmin] at sl
    -- curL·ONE > l·lsv − ONE  and  (lDec+1)·lsv > curL·ONE  ⇒  (l − lDec − 1)·lsv < ONE ... ⇒ l − lDec ≤ 1 + ONE/lsv ≤ 2
    have h1 : x0.l * b0.lsv < (curL + 1) * ONE := by rw [ecur, hx1l, hb1lsv]; exact mulfloor_gt _
    have h2 := sl.2.1
    -- (l − lDec − 2)·lsv < 0 would follow; show l − lDec < ONE directly
    by_contra hge
    have hge' : ONE ≤ x0.l - lDec := by omega
    have : (x0.l - lDec) * b0.lsv ≥ ONE * b0.lsv := mul_le_mul_of_nonneg_right hge' (le_of_lt hlsv0)
    nlinarith

/-! ### closing, disabled accounts, transfer (skeleton / table facts) -/

/-- **close_ok_iff**: an account can be closed iff it is not disabled, not in a flash loan, not in
    receivership and every slot is empty on both sides (frozen accounts are additionally stopped by the
    `has_one = authority` + freeze rules of C08; `can_be_closed` itself does not look at the frozen flag). -/
theorem close_ok_iff (s : List Slot) (d f r : Bool) (b : Bool) (h : canBeClosed s d f r = .ok b) :
    b = true → d = false ∧ f = false ∧ r = false ∧ allNone s = .ok true := by
  unfold canBeClosed at h
  obtain ⟨e, he, h⟩ := Res.bind_ok h
  injection h with h
  intro hb
  rw [hb] at h
  cases d <;> cases f <;> cases r <;> cases e <;> simp at h
  exact ⟨rfl, rfl, rfl, he⟩

open Mfi.Gen.Skel in
/-- **disabled_gates**: deposit, withdraw, borrow, repay and close-balance test ACCOUNT_DISABLED before any
    share-moving call (skeletons regenerated from the source) -/
theorem disabled_gates :
    ∀ h ∈ [deposit, withdraw, borrow, repay, close_balance],
      occursBefore h (· == .acctFlag .disabled) isOp = true := by decide

open Mfi.Gen.Skel in
/-- **the close instruction itself**: `marginfi_account_close` refuses a FROZEN account in its handler — whoever pays the
    fees and receives the rent — and then asks `can_be_closed` (empty, not disabled, not in a flash loan, not in
    receivership: close_ok_iff); both on every path (skeleton regenerated from instructions/marginfi_account/close.rs) -/
theorem close_checks_frozen_then_can_be_closed :
    close_account = [.acctFlag .frozen, .canBeClosed] ∧ close_account_cond = [0, 0] := by decide

open Mfi.Gen.Skel in
/-- … on every path: the ACCOUNT_DISABLED test sits at conditional depth 0 of each of these handlers -/
theorem disabled_gates_unconditional :
    ∀ h ∈ [(deposit, deposit_cond), (withdraw, withdraw_cond), (borrow, borrow_cond), (repay, repay_cond),
           (close_balance, close_balance_cond)],
      unconditionally h.1 h.2 (· == .acctFlag .disabled) = true := by decide

open Mfi.Gen.Skel in
/-- every position-changing user handler re-sorts the array after the change -/
theorem handlers_sort_after_change :
    ∀ h ∈ [deposit, withdraw, borrow, repay, close_balance, liquidate, kamino_deposit, kamino_withdraw,
           drift_deposit, drift_withdraw, solend_deposit, solend_withdraw],
      (match lastIdx h isOp, lastIdx h (· == .sort) with
       | some i, some j => decide (i < j)
       | _, _ => false) = true := by decide

/-! ### a transfer moves all positions to exactly one new account, once -/

section transfer
open Mfi.Transfer

/-- **transfer_moves_everything**: a successful transfer hands the whole position array (every slot, with its
    shares, tag, emissions and timestamps), the emissions destination and the flag word to the new account under
    the new authority, leaves the old account with sixteen empty slots, disabled, linked to the new key — and it
    only happens for an un-migrated account outside flash loans and receivership, on the signer's authority. -/
theorem transfer_moves_everything {old o' n : MAcct} {oldKey g ga cfw signer newKey newAuth fw : Nat} {p : Bool} {now : Int}
    (h : transfer old oldKey g ga cfw p signer newKey newAuth fw now = .ok (o', n)) :
    n.slots = old.slots ∧ n.authority = newAuth ∧ n.group = old.group ∧ n.emisDest = old.emisDest ∧
    n.migratedFrom = oldKey ∧ n.migratedTo = 0 ∧
    (n.disabled, n.flash, n.recv, n.frozen, n.otherFlags) = (old.disabled, false, false, old.frozen, old.otherFlags) ∧
    o'.slots = zeroedSlots ∧ (∀ x ∈ o'.slots, x.active = false) ∧ o'.disabled = true ∧ o'.migratedTo = newKey ∧
    o'.authority = old.authority ∧
    old.migratedTo = 0 ∧ p = false ∧ old.group = g ∧
    Auth.isSignerAuthorized (view old) ga signer false = true := by
  unfold transfer at h
  split at h; · cases h
  split at h; · cases h
  split at h; · cases h
  split at h; · cases h
  split at h; · cases h
  split at h; · cases h
  split at h; · cases h
  split at h; · cases h
  rename_i h1 h2 h3 h4 h5 h6 h7 h8
  injection h with h
  injection h with ho hn
  subst ho; subst hn
  have hf : old.flash = false := by simpa using h6
  have hr : old.recv = false := by simpa using h7
  refine ⟨rfl, rfl, rfl, rfl, rfl, rfl, ?_, rfl, ?_, rfl, rfl, rfl, ?_, ?_, ?_, ?_⟩
  · simp [hf, hr]
  · intro x hx
    have := List.eq_of_mem_replicate (show x ∈ List.replicate 16 emptySlot from hx)
    subst this; rfl
  · simpa using h8
  · simpa using h1
  · simpa using h2
  · simpa using h4

/-- **transfer_once**: once an account has been transferred to a real (non-default) key, every further transfer
    of it is refused, whoever signs, whatever the target -/
theorem transfer_once {old o' n : MAcct} {oldKey g ga cfw signer newKey newAuth fw : Nat} {p : Bool} {now : Int}
    (h : transfer old oldKey g ga cfw p signer newKey newAuth fw now = .ok (o', n)) (hk : newKey ≠ 0) :
    ∀ oldKey' g' ga' cfw' p' signer' newKey' newAuth' fw' now',
      ∃ e, transfer o' oldKey' g' ga' cfw' p' signer' newKey' newAuth' fw' now' = .error e := by
  have hm := (transfer_moves_everything h).2.2.2.2.2.2.2.2.2.2.1
  intro oldKey' g' ga' cfw' p' signer' newKey' newAuth' fw' now'
  unfold transfer
  split; · exact ⟨_, rfl⟩
  split; · exact ⟨_, rfl⟩
  split; · exact ⟨_, rfl⟩
  split; · exact ⟨_, rfl⟩
  split; · exact ⟨_, rfl⟩
  split; · exact ⟨_, rfl⟩
  split; · exact ⟨_, rfl⟩
  split; · exact ⟨_, rfl⟩
  rename_i h8
  exfalso; apply h8; rw [hm]; exact hk

/-- a migrated account stays migrated: `transfer` is the only step of the model that writes `migratedTo`, and it
    only ever writes it from 0 — so over ANY sequence of transfer attempts on one account (any signers, targets,
    times) at most one succeeds. `attempts` runs the attempts in order on the evolving old account and counts. -/
def attempts (oldKey g ga cfw : Nat) : MAcct → List (Bool × Nat × Nat × Nat × Nat × Int) → Nat
  | _, [] => 0
  | a, (p, signer, newKey, newAuth, fw, now) :: rest =>
    match transfer a oldKey g ga cfw p signer newKey newAuth fw now with
    | .ok (a', _) => 1 + attempts oldKey g ga cfw a' rest
    | .error _ => attempts oldKey g ga cfw a rest

theorem migrated_never_again (oldKey g ga cfw : Nat) :
    ∀ (l : List (Bool × Nat × Nat × Nat × Nat × Int)) (a : MAcct), a.migratedTo ≠ 0 → attempts oldKey g ga cfw a l = 0 := by
  intro l
  induction l with
  | nil => intro a _; rfl
  | cons x rest ih =>
    intro a ha
    obtain ⟨p, signer, newKey, newAuth, fw, now⟩ := x
    unfold attempts
    cases ht : transfer a oldKey g ga cfw p signer newKey newAuth fw now with
    | error e => exact ih a ha
    | ok r =>
      obtain ⟨a', n⟩ := r
      exact absurd (transfer_moves_everything ht).2.2.2.2.2.2.2.2.2.2.2.2.1 ha

/-- **transfer_at_most_once** (every history of attempts, new keys being real keys) -/
theorem transfer_at_most_once (oldKey g ga cfw : Nat) :
    ∀ (l : List (Bool × Nat × Nat × Nat × Nat × Int)) (a : MAcct), (∀ x ∈ l, x.2.2.1 ≠ 0) → attempts oldKey g ga cfw a l ≤ 1 := by
  intro l
  induction l with
  | nil => intro a _; exact Nat.zero_le _
  | cons x rest ih =>
    intro a hall
    obtain ⟨p, signer, newKey, newAuth, fw, now⟩ := x
    unfold attempts
    cases ht : transfer a oldKey g ga cfw p signer newKey newAuth fw now with
    | error e => exact ih a (fun y hy => hall y (List.mem_cons_of_mem _ hy))
    | ok r =>
      obtain ⟨a', n⟩ := r
      have hk : newKey ≠ 0 := hall _ (List.mem_cons_self ..)
      have hm := (transfer_moves_everything ht).2.2.2.2.2.2.2.2.2.2.1
      have := migrated_never_again oldKey g ga cfw rest a' (by rw [hm]; exact hk)
      simp only
      omega

open Mfi.Gen.TxL in
/-- the source, regenerated: the migration link is written only by `initialize` (to the default key) and by the
    two transfer handlers; whole position arrays are assigned only by the two transfer handlers (one copy into the
    new account, one zeroing of the old) -/
theorem migration_writers :
    migratedToWrites = [(.fn_initialize, false), (.fn_transfer_to_new_account, true), (.fn_transfer_to_new_account_pda, true)] ∧
    lendingArrayWrites = [(.fn_transfer_to_new_account, false), (.fn_transfer_to_new_account, true),
                          (.fn_transfer_to_new_account_pda, false), (.fn_transfer_to_new_account_pda, true)] := by decide

open Mfi.Gen.Skel in
/-- both transfer handlers, in source order and unconditionally: flash-loan / receivership / already-migrated
    checks, then copy array + flags, link, zero the old array, disable the old account -/
theorem transfer_shape :
    ∀ h ∈ [(transfer_to_new_account, transfer_to_new_account_cond), (transfer_to_new_account_pda, transfer_to_new_account_pda_cond)],
      h.1 = [.feeAtaCheck, .acctFlag .inFlashloan, .acctFlag .inReceivership, .migratedCheck, .moveArray, .copyFlags,
             .setMigratedTo, .zeroArray, .setFlag .disabled] ∧ h.2.all (· == 0) = true := by decide

end transfer

/-! ### non-vacuity -/
def demo : List Slot :=
  [⟨true, 9, 0, 5, 0, 0, 0⟩, ⟨true, 4, 3, 0, 7, 0, 0⟩] ++ List.replicate 14 emptySlot
example : (findOrCreate demo 6 0 100).isOk = true := by decide
def demoAcct : Transfer.MAcct :=
  { group := 7, authority := 11, slots := demo, disabled := false, flash := false, recv := false, frozen := false, otherFlags := 0,
    emisDest := 0, migratedFrom := 0, migratedTo := 0, lastUpdate := 5 }
example : (Transfer.transfer demoAcct 100 7 1 3 false 11 200 12 3 99).isOk = true := by decide

/-! ### the numbers of the property text -/

/-- "at most 8 integration positions and 16 positions overall" -/
theorem position_limits : Mfi.Gen.MAX_INTEGRATION_POSITIONS = 8 ∧ Mfi.Gen.MAX_LENDING_ACCOUNT_BALANCES = 16 := by decide

section whole_instructions
open Mfi Mfi.World Mfi.Gen Mfi.Gen.Acc

/-! ### whole instructions (Mfi/Model/World.lean) -/

/-- **world_disabled_account_is_inert**: an account flagged ACCOUNT_DISABLED (bankrupt or migrated) gets none of the five
    user instructions through, whoever signs and whatever the bank's state -/
theorem world_disabled_account_is_inert (c : Ctx) (hd : flag c ACCOUNT_DISABLED = true) :
    (∀ amt up, (World.deposit c amt up).isOk = false) ∧ (∀ amt, (World.borrow c amt).isOk = false) ∧
    (∀ amt all, (World.withdraw c amt all).isOk = false) ∧ (∀ amt all, (World.repay c amt all).isOk = false) ∧
    (World.closeBalance c).isOk = false := by
  refine ⟨?_, ?_, ?_, ?_, ?_⟩
  · intro amt up
    cases hr : World.deposit c amt up with
    | error e => rfl
    | ok o => have := (deposit_ok hr).flags.1; simp [hd] at this
  · intro amt
    cases hr : World.borrow c amt with
    | error e => rfl
    | ok o => have := (borrow_ok hr).flags.1; simp [hd] at this
  · intro amt all
    cases hr : World.withdraw c amt all with
    | error e => rfl
    | ok o => have := (withdraw_ok hr).flags; simp [hd] at this
  · intro amt all
    cases hr : World.repay c amt all with
    | error e => rfl
    | ok o => have := (repay_ok hr).flags; simp [hd] at this
  · cases hr : World.closeBalance c with
    | error e => rfl
    | ok o => have := (close_ok hr).flags; simp [hd] at this

/-- every instruction writes the touched slot and then SORTS: the slot array it leaves is `sort_balances` of an array -/
theorem world_leaves_sorted_array (c : Ctx) :
    (∀ amt o, World.borrow c amt = .ok o → ∃ l, o.slots = Account.sortBalances l) ∧
    (∀ amt all o, World.withdraw c amt all = .ok o → ∃ l, o.slots = Account.sortBalances l) ∧
    (∀ amt all o, World.repay c amt all = .ok o → ∃ l, o.slots = Account.sortBalances l) ∧
    (∀ o, World.closeBalance c = .ok o → ∃ l, o.slots = Account.sortBalances l) := by
  refine ⟨?_, ?_, ?_, ?_⟩
  · intro amt o h
    obtain ⟨b, slots, i, x, x', _, _, _, _, _, _, hs⟩ := (borrow_ok h).core
    exact ⟨_, hs⟩
  · intro amt all o h
    obtain ⟨_, _, i, s, x', _, _, _, _, _, _, _, hs⟩ := (withdraw_ok h).core
    exact ⟨_, hs⟩
  · intro amt all o h
    obtain ⟨_, i, s, _, x', _, _, _, _, _, _, hs⟩ := (repay_ok h).core
    exact ⟨_, hs⟩
  · intro o h
    obtain ⟨_, i, s, x', _, _, _, hs⟩ := (close_ok h).core
    exact ⟨_, hs⟩

/-- … nor can a disabled account start a flash loan, nor be closed (`world_close_account_spec`): `lending_account_start_flashloan`
    as a whole instruction, wherever it sits in whatever transaction -/
theorem world_disabled_account_starts_no_flash_loan (c : Ctx) (hd : flag c ACCOUNT_DISABLED = true) (cur endIdx : Nat) (endIx : Option Bool) :
    (World.startFlashloan c cur endIdx endIx).isOk = false := by
  cases hr : World.startFlashloan c cur endIdx endIx with
  | error e => rfl
  | ok f =>
    have := (startFlashloan_ok hr).2.2.2.1
    rw [hd] at this; cases this

/-- **world_tx_disabled_account_is_inert**: in every COMMITTED transaction of the world machine each deposit, borrow, withdrawal and
    repayment ran on an account that was NOT disabled on the state it found — inside a flash-loan or receivership bracket or not:
    a bankrupt or migrated account takes part in nothing -/
theorem world_tx_disabled_account_is_inert {w w' : WState} {tx : List TOp} (h : w.runTx tx = some w') (i : Nat) :
    (∀ ai bi signer amount upTo, tx[i]? = some (.ix (.deposit ai bi signer amount upTo)) →
      ∃ (wi : WState) (a : AcctV), w.before tx i = some wi ∧ wi.accts[ai]? = some a ∧ hasFlag a.flags ACCOUNT_DISABLED = false) ∧
    (∀ ai bi signer amount, tx[i]? = some (.ix (.borrow ai bi signer amount)) →
      ∃ (wi : WState) (a : AcctV), w.before tx i = some wi ∧ wi.accts[ai]? = some a ∧ hasFlag a.flags ACCOUNT_DISABLED = false) ∧
    (∀ ai bi signer amount all vault, tx[i]? = some (.ix (.withdraw ai bi signer amount all vault)) →
      ∃ (wi : WState) (a : AcctV), w.before tx i = some wi ∧ wi.accts[ai]? = some a ∧ hasFlag a.flags ACCOUNT_DISABLED = false) ∧
    (∀ ai bi signer amount all, tx[i]? = some (.ix (.repay ai bi signer amount all)) →
      ∃ (wi : WState) (a : AcctV), w.before tx i = some wi ∧ wi.accts[ai]? = some a ∧ hasFlag a.flags ACCOUNT_DISABLED = false) := by
  refine ⟨?_, ?_, ?_, ?_⟩
  · intro ai bi signer amount upTo hi
    obtain ⟨wi, a, b, o, hbef, ha, _, ho⟩ := tx_deposit_ran h hi
    exact ⟨wi, a, hbef, ha, (deposit_ok ho).flags.1⟩
  · intro ai bi signer amount hi
    obtain ⟨wi, a, b, o, hbef, ha, _, ho⟩ := tx_borrow_ran h hi
    exact ⟨wi, a, hbef, ha, (borrow_ok ho).flags.1⟩
  · intro ai bi signer amount all vault hi
    obtain ⟨wi, a, b, o, hbef, ha, _, ho⟩ := tx_withdraw_ran h hi
    exact ⟨wi, a, hbef, ha, (withdraw_ok ho).flags⟩
  · intro ai bi signer amount all hi
    obtain ⟨wi, a, b, o, hbef, ha, _, ho⟩ := tx_repay_ran h hi
    exact ⟨wi, a, hbef, ha, (repay_ok ho).flags⟩

theorem allNone_true : ∀ (s : List Account.Slot), Account.allNone s = .ok true →
    ∀ x ∈ s, x.a < EMPTY_BALANCE_THRESHOLD ∧ x.l < EMPTY_BALANCE_THRESHOLD := by
  intro s
  induction s with
  | nil => intro _ x hx; cases hx
  | cons y rest ih =>
    intro h x hx
    unfold Account.allNone at h
    obtain ⟨b, hb, h⟩ := Res.bind_ok h
    cases b with
    | false => simp at h
    | true =>
      simp only [Bool.not_true, Bool.false_eq_true, if_false] at h
      rcases List.mem_cons.mp hx with rfl | hx
      · unfold Account.sideIsNone at hb
        split at hb
        · cases hb
        · injection hb with hb
          simp only [Bool.and_eq_true, decide_eq_true_eq] at hb
          exact ⟨hb.2, hb.1⟩
      · exact ih h x hx

/-- **world_close_account_spec**: `marginfi_account_close` (the whole instruction) goes through only signed by the account's
    AUTHORITY (no group-admin and no receivership path), on an account that is not frozen, not disabled, neither in a flash loan
    nor in receivership, and whose every slot — active or not — holds less than one share on both sides -/
theorem world_close_account_spec {c : Ctx} (h : World.closeAccount c = .ok ()) :
    c.a.authority = c.signer ∧ flag c ACCOUNT_FROZEN = false ∧ flag c ACCOUNT_DISABLED = false ∧
    flag c ACCOUNT_IN_FLASHLOAN = false ∧ flag c ACCOUNT_IN_RECEIVERSHIP = false ∧
    ∀ x ∈ c.a.slots, x.a < EMPTY_BALANCE_THRESHOLD ∧ x.l < EMPTY_BALANCE_THRESHOLD := by
  unfold World.closeAccount at h
  obtain ⟨_, hc, h⟩ := Res.bind_ok h
  obtain ⟨_, hf, h⟩ := Res.bind_ok h
  obtain ⟨ok, hcan, h⟩ := Res.bind_ok h
  have hok : ok = true := by
    cases ok with
    | true => rfl
    | false => simp [Bank.chk] at h
  have hc' := runChecks_ok hc
  simp only [Gen.Acc.checks, List.forall_mem_cons, List.not_mem_nil, false_imp_iff, implies_true, and_true] at hc'
  simp [evalChk, Ctx.env] at hc'
  have hfz := Bank.chk_ok hf
  simp only [Bool.not_eq_true'] at hfz
  obtain ⟨hd, hfl, hr, hall⟩ := close_ok_iff _ _ _ _ ok hcan hok
  exact ⟨hc', hfz, hd, hfl, hr, allNone_true _ hall⟩

end whole_instructions

section whole_instructions
open Mfi Mfi.World Mfi.Gen Mfi.Gen.Acc

/-! ### the account structure over whole instructions and whole histories (Mfi/Model/World.lean) -/

/-- **world_instruction_keeps_shape**: each of the five whole instructions, when it succeeds on an account whose slot
    array has 16 slots, at most one active slot per bank and non-increasing bank keys, leaves such an array — whether it
    opened a slot (`find_or_create`), rewrote one, or closed one, and re-sorted. -/
theorem world_instruction_keeps_shape (c : Ctx) (hs : Shape c.a.slots) :
    (∀ amt up o, World.deposit c amt up = .ok o → Shape o.slots) ∧
    (∀ amt o, World.borrow c amt = .ok o → Shape o.slots) ∧
    (∀ amt all o, World.withdraw c amt all = .ok o → Shape o.slots) ∧
    (∀ amt all o, World.repay c amt all = .ok o → Shape o.slots) ∧
    (∀ o, World.closeBalance c = .ok o → Shape o.slots) :=
  ⟨fun _ _ _ h => deposit_shape h hs, fun _ _ h => borrow_shape h hs, fun _ _ _ h => withdraw_shape h hs,
   fun _ _ _ h => repay_shape h hs, fun _ h => close_shape h hs⟩

/-- a classic liquidation keeps the shape of the liquidator's AND the liquidatee's slot array; a bankruptcy settlement keeps
    the shape of the bankrupt account's -/
theorem world_liquidation_and_bankruptcy_keep_shape :
    (∀ (c : LiqCtx) amount o, World.liquidate c amount = .ok o → Shape c.lq.slots → Shape c.le.slots → Shape o.lqSlots ∧ Shape o.leSlots) ∧
    (∀ (c : Ctx) available o, World.bankruptcy c available = .ok o → Shape c.a.slots → Shape o.slots) :=
  ⟨fun _ _ _ h hq he => liquidate_shape h hq he, fun _ _ _ h hs => bankruptcy_shape h hs⟩

/-- **world_shape_history**: over EVERY history of whole instructions (the five user instructions, classic liquidations,
    bankruptcy settlements) by any signers on any accounts and banks, every
    account keeps 16 slots, at most one position per bank, and its positions ordered by bank key as the risk engine expects. -/
theorem world_shape_history (w : WState) (ops : List WOp) (h : WShape w) : WShape (w.run ops) := run_shape ops w h

/-- **world_transfer_spec**: in the world state machine an accepted `transfer_to_new_account` hands the WHOLE slot array to the
    new account (under the key asked for) and leaves the old account with sixteen empty slots; `world_shape_history` and
    `world_ledger_history` (C02) therefore run through transfers too: the world gains an account, no position is duplicated or
    lost, every array keeps its shape -/
theorem world_transfer_spec {g : GroupV} {a o n : AcctV} {signer newKey newAuth : Nat} {ok : Bool}
    (h : transferIx g a signer newKey newAuth ok = .ok (o, n)) :
    o.slots = Transfer.zeroedSlots ∧ n.slots = a.slots ∧ o.key = a.key ∧ n.key = newKey ∧ Shape o.slots :=
  ⟨(transferIx_ok h).1, (transferIx_ok h).2.1, (transferIx_ok h).2.2.1, (transferIx_ok h).2.2.2, by rw [(transferIx_ok h).1]; exact zeroed_shape⟩

/-- **world_shape_over_transactions**: … and over every sequence of TRANSACTIONS of the world state machine (whole instructions,
    flash-loan and liquidation brackets, executed atomically): whatever happens inside a bracket, every account keeps 16 slots, at
    most one position per bank, sorted -/
theorem world_shape_over_transactions (w : WState) (txs : List (List TOp)) (h : WShape w) : WShape (w.runTxs txs) := runTxs_shape txs w h

/-- a fresh account (16 empty slots) has the shape -/
theorem empty_account_shape : Shape (List.replicate 16 Account.emptySlot) := by
  refine ⟨by simp, by simp [keys, Account.emptySlot, List.replicate, List.filter], ?_⟩
  simp [List.pairwise_replicate]

end whole_instructions

end Mfi.Props.C16
