/-
  C13 — Accepted configurations are coherent and always leave a liquidation buffer.
  Theorems about Mfi/Model/Admin.lean (BankConfig::validate, Bank::configure, e-mode validation), which
  the `admin` family diffs against the real functions on generated valid and invalid configurations.
-/
import Mfi.Model.Admin
import Mfi.Lemmas.FxL
import Mfi.Lemmas.ResL
import Mfi.Props.C18
import Mfi.Props.C04

namespace Mfi.Props.C13
open Mfi Mfi.Fx Mfi.Admin Mfi.Gen

theorem need_ok {b : Bool} {c : Nat} (h : need b c = .ok ()) : b = true := by
  unfold need at h
  split at h
  · assumption
  · cases h

/-- what it means for a bank configuration to be coherent -/
structure Coherent (c : Cfg) : Prop where
  aInit_range : 0 ≤ c.aInit ∧ c.aInit ≤ ONE
  aMaint_range : c.aInit ≤ c.aMaint ∧ c.aMaint ≤ 2 * ONE
  liab : ONE ≤ c.lMaint ∧ c.lMaint ≤ c.lInit
  isolated : c.riskTier = 1 → c.aInit = 0 ∧ c.aMaint = 0
  oracle_age : ORACLE_MIN_AGE ≤ c.oracleMaxAge
  curve : Interest.validate c.ir.toCalc = .ok true

/-- **validate_coherent**: everything `BankConfig::validate` accepts is coherent -/
theorem validate_coherent (c : Cfg) (h : validateCfg c = .ok ()) : Coherent c := by
  unfold validateCfg at h
  obtain ⟨_, h1, h⟩ := Res.bind_ok h
  obtain ⟨_, h2, h⟩ := Res.bind_ok h
  obtain ⟨_, h3, h⟩ := Res.bind_ok h
  obtain ⟨_, h4, h⟩ := Res.bind_ok h
  obtain ⟨_, h5, h⟩ := Res.bind_ok h
  obtain ⟨ok, h6, h⟩ := Res.bind_ok h
  obtain ⟨_, h7, h⟩ := Res.bind_ok h
  obtain ⟨_, h8, h⟩ := Res.bind_ok h
  have e1 := need_ok h1
  have e2 := need_ok h2
  have e3 := need_ok h3
  have e4 := need_ok h4
  have e5 := need_ok h5
  have e7 := need_ok h7
  have e9 := need_ok h
  simp only [Bool.and_eq_true, decide_eq_true_eq] at e1 e2 e3 e4 e5 e9
  subst e7
  refine ⟨⟨e1.1, e1.2⟩, ⟨e3, by have := ONE_pos; omega⟩, ⟨e5.2, e5.1⟩, ?_, e9, h6⟩
  intro hiso
  simp only [hiso, ↓reduceIte] at h8
  obtain ⟨_, h81, h82⟩ := Res.bind_ok h8
  have a := need_ok h81
  have b := need_ok h82
  simp only [decide_eq_true_eq] at a b
  exact ⟨a, b⟩

/-- **accepted_config_coherent (configure)**: whatever `Bank::configure` accepts leaves a coherent configuration -/
theorem configure_coherent (c c' : Cfg) (flags f' : Nat) (o : CfgOpt) (h : configure c flags o = .ok (c', f')) :
    Coherent c' := by
  unfold configure at h
  obtain ⟨_, _, h⟩ := Res.bind_ok h
  dsimp only at h
  obtain ⟨_, hv, h⟩ := Res.bind_ok h
  injection h with h
  injection h with h1 _
  rw [← h1]
  exact validate_coherent _ hv

/-- **killed_unreachable_by_admin**: `configure` can neither put a bank into nor take it out of the
    killed-by-bankruptcy state (the second half since `fix: Bank::configure cannot take a bank out of
    the KilledByBankruptcy state`). -/
theorem stateGuard_ok (cur : Gate.OpState) (o : Option Gate.OpState) (h : stateGuard cur o = .ok ()) :
    (setIf cur o = .killedByBankruptcy ↔ cur = .killedByBankruptcy) := by
  cases o with
  | none => simp [setIf]
  | some st => cases st <;> cases cur <;> simp [stateGuard, setIf, bad] at h ⊢

theorem configure_killed_iff (c c' : Cfg) (flags f' : Nat) (o : CfgOpt) (h : configure c flags o = .ok (c', f')) :
    (c'.opState = .killedByBankruptcy ↔ c.opState = .killedByBankruptcy) := by
  unfold configure at h
  obtain ⟨_, hs, h⟩ := Res.bind_ok h
  dsimp only at h
  obtain ⟨_, _, h⟩ := Res.bind_ok h
  injection h with h
  injection h with h1 _
  rw [← h1]
  exact stateGuard_ok _ _ hs

/-- the frozen path of configure_bank cannot touch the operational state at all -/
theorem configureUnfrozen_state (c : Cfg) (o : CfgOpt) : (configureUnfrozen c o).opState = c.opState := rfl

/-! ### e-mode entries -/

/-- what `calculate_max_leverage` establishes -/
theorem maxLeverage_ok {cw lw lev : Int} (h : maxLeverage cw lw = .ok lev) : 0 < lw ∧ cw < lw := by
  unfold maxLeverage at h
  obtain ⟨_, h1, h⟩ := Res.bind_ok h
  obtain ⟨_, h2, h⟩ := Res.bind_ok h
  have a := need_ok h1
  have b := need_ok h2
  simp only [decide_eq_true_eq] at a b
  exact ⟨a, b⟩

/-- **emode_entry_coherent**: every non-empty entry accepted against a bank's liability weights has
    0 ≤ init ≤ maint, init < liability-init weight, maint < liability-maint weight, and its implied leverage
    1/(1 − w/l) (computed by the code's own `calculate_max_leverage`) is within the group caps. -/
theorem validateEntry_ok {e : Entry} {lI lM mI mM : Int} (h : validateEntry e lI lM mI mM = .ok ()) (hne : e.tag ≠ 0) :
    0 ≤ e.init ∧ e.init ≤ e.maint ∧ e.init < lI ∧ e.maint < lM ∧
    (∃ li, maxLeverage e.init lI = .ok li ∧ li ≤ mI) ∧ (∃ lm, maxLeverage e.maint lM = .ok lm ∧ lm ≤ mM) := by
  unfold validateEntry at h
  simp only [hne, ↓reduceIte] at h
  obtain ⟨_, h1, h⟩ := Res.bind_ok h
  obtain ⟨_, h2, h⟩ := Res.bind_ok h
  obtain ⟨li, h3, h⟩ := Res.bind_ok h
  obtain ⟨_, h4, h⟩ := Res.bind_ok h
  obtain ⟨lm, h5, h⟩ := Res.bind_ok h
  have a := need_ok h1
  have b := need_ok h2
  have c := need_ok h4
  have d := need_ok h
  simp only [decide_eq_true_eq] at a b c d
  exact ⟨a, b, (maxLeverage_ok h3).2, (maxLeverage_ok h5).2, ⟨li, h3, c⟩, ⟨lm, h5, d⟩⟩

theorem validateEntries_all : ∀ (es : List Entry) (a b c d : Int), validateEntries es a b c d = .ok () →
    ∀ e ∈ es, validateEntry e a b c d = .ok () := by
  intro es
  induction es with
  | nil => intro _ _ _ _ _ e he; cases he
  | cons x rest ih =>
    intro a b c d h e he
    unfold validateEntries at h
    obtain ⟨_, h1, h2⟩ := Res.bind_ok h
    rcases List.mem_cons.1 he with rfl | hm
    · exact h1
    · exact ih a b c d h2 e hm

/-- **emode_config_coherent**: for everything `validate_entries_with_liability_weights` accepts -/
theorem emode_config_coherent (es : List Entry) (lI lM mI mM : Int) (h : validateEmode es lI lM mI mM = .ok ()) :
    ∀ e ∈ es, e.tag ≠ 0 → 0 ≤ e.init ∧ e.init ≤ e.maint ∧ e.init < lI ∧ e.maint < lM := by
  unfold validateEmode at h
  obtain ⟨_, h1, _⟩ := Res.bind_ok h
  intro e he hne
  have := validateEntry_ok (validateEntries_all es _ _ _ _ h1 e he) hne
  exact ⟨this.1, this.2.1, this.2.2.1, this.2.2.2.1⟩

/-! ### the whole instruction (`Admin.ixConfigureBank`, diffed bit for bit against the real
`lending_pool_configure_bank` through dispatch by the `cfgix` family) -/

/-- **ix_configure_coherent**: whatever the full-configure INSTRUCTION accepts on an unfrozen bank leaves a coherent
    configuration AND every e-mode entry the bank already holds is coherent against the NEW liability weights
    (weights below them, leverage within the group's caps) — lowering the liability weights under a stored entry is
    refused; on a frozen bank only the two limits can change -/
theorem ix_configure_coherent (c c' : Cfg) (flags f' : Nat) (es : List Entry) (mi mm : Int) (o : CfgOpt)
    (h : ixConfigureBank c flags es mi mm o = .ok (c', f')) :
    (hasFlag flags FREEZE_SETTINGS = false →
      Coherent c' ∧ validateEmode es c'.lInit c'.lMaint mi mm = .ok () ∧
      (∀ e ∈ es, e.tag ≠ 0 → 0 ≤ e.init ∧ e.init ≤ e.maint ∧ e.init < c'.lInit ∧ e.maint < c'.lMaint)) ∧
    (hasFlag flags FREEZE_SETTINGS = true → c' = configureUnfrozen c o ∧ f' = flags) := by
  unfold ixConfigureBank at h
  constructor
  · intro hf
    simp only [hf, Bool.false_eq_true, ↓reduceIte] at h
    obtain ⟨r, hr, h⟩ := Res.bind_ok h
    obtain ⟨u, hv, h⟩ := Res.bind_ok h
    injection h with h
    obtain ⟨r1, r2⟩ := r
    injection h with h1 h2
    subst h1; subst h2
    cases u
    exact ⟨configure_coherent c r1 flags r2 o hr, hv, emode_config_coherent es _ _ mi mm hv⟩
  · intro hf
    simp only [hf, ↓reduceIte] at h
    injection h with h
    injection h with h1 h2
    exact ⟨h1.symm, h2.symm⟩

/-! ### the consequence: a liquidation buffer

`C04.init_implies_maint` proves, on the risk-engine model, that an account passing the initial-margin check at
given prices has non-negative maintenance health — from exactly the weight ordering established above. The two
lemmas below discharge its configuration hypotheses from what `validate`/`configure`/e-mode validation accept. -/

theorem risk_view_coherent (c : Cfg) (b : Risk.BankR) (hc : Coherent c)
    (hw : b.aInit = c.aInit ∧ b.aMaint = c.aMaint ∧ b.lInit = c.lInit ∧ b.lMaint = c.lMaint)
    (hsv : 0 ≤ b.asv ∧ 0 ≤ b.lsv) : C04.Coherent b := by
  have := ONE_pos
  obtain ⟨h1, h2, h3, h4⟩ := hw
  refine ⟨?_, ?_, ?_, ?_, hsv.1, hsv.2⟩
  · rw [h1]; exact hc.aInit_range.1
  · rw [h1, h2]; exact hc.aMaint_range.1
  · rw [h4]; have := hc.liab.1; omega
  · rw [h3, h4]; exact hc.liab.2

theorem risk_view_entries (es : List Entry) (lI lM mI mM : Int) (h : validateEmode es lI lM mI mM = .ok ()) :
    C04.EntriesOk (es.map fun e => { tag := e.tag.toNat, flags := e.flags.toNat, wInit := e.init, wMaint := e.maint }) := by
  intro e he hne
  obtain ⟨x, hx, rfl⟩ := List.mem_map.1 he
  have hne' : x.tag ≠ 0 := by intro h0; apply hne; simp [h0]
  have := emode_config_coherent es lI lM mI mM h x hx hne'
  exact ⟨this.1, this.2.1⟩

/-! ### non-vacuity -/
def sampleCfg : Cfg :=
  { aInit := ONE / 2, aMaint := ONE * 3 / 4, lInit := ONE * 3 / 2, lMaint := ONE * 5 / 4, depositLimit := 1000, borrowLimit := 1000,
    opState := .operational, riskTier := 0, assetTag := 0, initLimit := 0, oracleMaxConf := 0, oracleMaxAge := 60,
    ir := { optimal := 0, plateau := 0, maxIr := 0, insFixed := 0, insRate := 0, grpFixed := 0, grpRate := 0, origination := 0,
            zeroRate := 0, hundredRate := 429496729, points := [⟨2147483647, 214748364⟩, ⟨0, 0⟩, ⟨0, 0⟩, ⟨0, 0⟩, ⟨0, 0⟩], curveType := 1 } }
example : validateCfg sampleCfg = .ok () := by decide
example : (validateEmode [⟨1, 0, ONE * 9 / 10, ONE * 19 / 20⟩] sampleCfg.lInit sampleCfg.lMaint 644245094 858993459).isOk = true := by decide

end Mfi.Props.C13
