/-
  C17 — Caps and utilization: limits hold after every user action.
  Theorems about Mfi/Model/Bank.lean (wrapper + bank operations diffed against the real
  BankAccountWrapper / BankImpl code by the `wrapper` and `bank` families).
-/
import Mfi.Model.Bank
import Mfi.Model.Ix
import Mfi.Lemmas.FxL
import Mfi.Lemmas.ResL
import Mfi.Lemmas.BankL
import Mfi.Lemmas.SkelL
import Mfi.Lemmas.ConstL
import Mfi.Lemmas.TagL
import Mfi.Lemmas.WorldL
import Mfi.Lemmas.WorldLedger
import Mfi.Lemmas.WorldTxL

namespace Mfi.Props.C17
open Mfi Mfi.Fx Mfi.Bank Mfi.Gen

theorem toU64_floor {a n : Int} (h : toU64? (floor a) = some n) : n = a / ONE ∧ 0 ≤ n ∧ n ≤ U64MAX := by
  unfold toU64? at h
  simp only at h
  split at h
  · rename_i hr
    injection h with h
    have : floor a / ONE = a / ONE := by unfold floor; exact Int.mul_ediv_cancel _ (by decide)
    rw [this] at h hr
    subst h
    exact ⟨rfl, hr.1, hr.2⟩
  · cases h

/-- the fields of the bank that cap/utilisation checks read -/
def SameBooks (b b' : Bank) : Prop :=
  b'.asv = b.asv ∧ b'.lsv = b.lsv ∧ b'.depositLimit = b.depositLimit ∧ b'.borrowLimit = b.borrowLimit ∧
  b'.assetTag = b.assetTag ∧ b'.mintDecimals = b.mintDecimals

/-- `change_asset_shares`: on success with a positive share change on a capped bank (no bypass),
    the new total deposits are strictly below the limit. -/
theorem changeAsset_below_limit {b b' : Bank} {s : Int} (h : changeAssetShares b s false = .ok b')
    (hs : 0 < s) (hact : b.depositLimit ≠ U64MAX) :
    ∃ t lim, assetAmount b' b'.sa = .ok t ∧ depositLimitFx b' = .ok lim ∧ t < lim := by
  unfold changeAssetShares at h
  obtain ⟨sa', h1, h⟩ := Res.bind_ok h
  have hact' : depositLimitActive { b with sa := sa' } = true := by simp [depositLimitActive, hact]
  dsimp only at h
  simp only [hs, decide_true, hact', Bool.and_self, Bool.not_false, ↓reduceIte] at h
  obtain ⟨t, h2, h⟩ := Res.bind_ok h
  obtain ⟨lim, h3, h⟩ := Res.bind_ok h
  split at h
  · cases h
  · rename_i hlt
    injection h with h
    subst h
    exact ⟨t, lim, h2, h3, by omega⟩

/-- `change_liability_shares`: same for the borrow cap -/
theorem changeLiab_below_limit {b b' : Bank} {s : Int} (h : changeLiabShares b s false = .ok b')
    (hs : 0 < s) (hact : b.borrowLimit ≠ U64MAX) :
    ∃ t, liabAmount b' b'.sl = .ok t ∧ t < ofInt b'.borrowLimit := by
  unfold changeLiabShares at h
  obtain ⟨sl', h1, h⟩ := Res.bind_ok h
  have hact' : borrowLimitActive { b with sl := sl' } = true := by simp [borrowLimitActive, hact]
  dsimp only at h
  simp only [hs, decide_true, hact', Bool.and_self, Bool.not_false, Bool.true_and, ↓reduceIte] at h
  obtain ⟨t, h2, h⟩ := Res.bind_ok h
  split at h
  · cases h
  · rename_i hlt
    injection h with h
    subst h
    exact ⟨t, h2, by simp only at hlt ⊢; omega⟩

/-- `check_utilization_ratio` succeeds iff total deposits ≥ total debt -/
theorem checkUtil_ok {b : Bank} (h : checkUtilization b = .ok ()) :
    ∃ ta tl, assetAmount b b.sa = .ok ta ∧ liabAmount b b.sl = .ok tl ∧ tl ≤ ta := by
  unfold checkUtilization at h
  obtain ⟨ta, h1, h⟩ := Res.bind_ok h
  obtain ⟨tl, h2, h⟩ := Res.bind_ok h
  split at h
  · cases h
  · exact ⟨ta, tl, h1, h2, by omega⟩


/-! ### wrapper level: what every successful user action leaves behind -/

/-- **deposit_below_limit**: after any successful (non-bypass) balance increase that minted deposit
    shares on a bank with an active deposit limit, total deposits are strictly below the limit. -/
theorem deposit_below_limit {b0 b' : Bank} {x0 x' : Balance} {now delta : Int} {t : IncType}
    (h : increaseBalance b0 x0 now delta t = .ok (b', x')) (ht : t ≠ .bypassDepositLimit)
    (hact : b0.depositLimit ≠ U64MAX) (hminted : b0.sa < b'.sa) :
    ∃ tot lim, assetAmount b' b'.sa = .ok tot ∧ depositLimitFx b' = .ok lim ∧ tot < lim := by
  obtain ⟨b1, x1, curL, d, aInc, lDec, b2, b3, hc, _, _, _, _, _, hb2, _, hb3, _, _, _, _, _, ⟨lc, bc, hb'⟩⟩ :=
    (increase_spec h).ex
  obtain ⟨⟨r, hb1⟩, _⟩ := claim_frame hc
  have hbp : (t == IncType.bypassDepositLimit) = false := by simp [ht]
  rw [hbp] at hb2
  obtain ⟨e2, _, _⟩ := changeAsset_frame hb2
  obtain ⟨e3, _, _⟩ := changeLiab_frame hb3
  have hsa : b'.sa = b0.sa + aInc := by rw [hb', e3, e2, hb1]
  have hpos : 0 < aInc := by omega
  have hact1 : b1.depositLimit ≠ U64MAX := by rw [hb1]; exact hact
  obtain ⟨tot, lim, h1, h2, h3⟩ := changeAsset_below_limit hb2 hpos hact1
  refine ⟨tot, lim, ?_, ?_, h3⟩
  · rw [hb', e3]; exact h1
  · rw [hb', e3]; exact h2

/-- **borrow_below_limit**: after any successful non-bypass balance decrease that minted debt
    shares on a bank with an active borrow limit, total debt is strictly below the limit. -/
theorem borrow_below_limit {b0 b' : Bank} {x0 x' : Balance} {now delta : Int} {t : DecType}
    (h : decreaseBalance b0 x0 now delta t = .ok (b', x')) (ht : t ≠ .bypassBorrowLimit)
    (hact : b0.borrowLimit ≠ U64MAX) (hminted : b0.sl < b'.sl) :
    ∃ tot, liabAmount b' b'.sl = .ok tot ∧ tot < ofInt b'.borrowLimit := by
  obtain ⟨b1, x1, curA, d, aDec, lInc, b2, b3, hc, _, _, _, _, _, hb2, _, hb3, _, _, _, _, _, _, ⟨lc, bc, hb'⟩⟩ :=
    (decrease_spec h).ex
  obtain ⟨⟨r, hb1⟩, _⟩ := claim_frame hc
  have hbp : (t == DecType.bypassBorrowLimit) = false := by simp [ht]
  rw [hbp] at hb3
  obtain ⟨e2, _, _⟩ := changeAsset_frame hb2
  obtain ⟨e3, _, _⟩ := changeLiab_frame hb3
  have hsl : b'.sl = b0.sl + lInc := by rw [hb', e3, e2, hb1]
  have hpos : 0 < lInc := by omega
  have hact2 : b2.borrowLimit ≠ U64MAX := by rw [e2, hb1]; exact hact
  obtain ⟨tot, h1, h2⟩ := changeLiab_below_limit hb3 hpos hact2
  refine ⟨tot, ?_, ?_⟩
  · rw [hb']; exact h1
  · rw [hb']; exact h2

/-- **utilization_after**: after any successful withdraw or borrow (every decrease except the
    liquidation bypass) the bank's total deposits are at least its total debt. -/
theorem utilization_after {b0 b' : Bank} {x0 x' : Balance} {now delta : Int} {t : DecType}
    (h : decreaseBalance b0 x0 now delta t = .ok (b', x')) (ht : t ≠ .bypassBorrowLimit) :
    ∃ ta tl, assetAmount b' b'.sa = .ok ta ∧ liabAmount b' b'.sl = .ok tl ∧ tl ≤ ta := by
  obtain ⟨b1, x1, curA, d, aDec, lInc, b2, b3, _, _, _, _, _, _, _, _, _, hu, _, _, _, _, _, ⟨lc, bc, hb'⟩⟩ :=
    (decrease_spec h).ex
  obtain ⟨ta, tl, h1, h2, h3⟩ := checkUtil_ok (hu ht)
  exact ⟨ta, tl, by rw [hb']; exact h1, by rw [hb']; exact h2, h3⟩

/-- **liquidation_may_exceed**: the two bypass modes exist and skip the respective cap — the
    explicit exception the property names (witness: a bank at its deposit limit still accepts a
    bypass deposit). -/
def cappedBank : Bank :=
  { asv := ONE, lsv := ONE, sa := 100 * ONE, sl := 0, feeI := 0, feeG := 0, feeP := 0, depositLimit := 100,
    borrowLimit := 0, flags := 0, assetTag := 0, mintDecimals := 6, emissionsRate := 0, emissionsRemaining := 0,
    lendCnt := 1, borrowCnt := 0, lastUpdate := 0, cacheAccum := 0, cacheFor := 0 }
def freshBal : Balance := { active := true, tag := 0, a := 0, l := 0, emis := 0, lastUpdate := 0 }

theorem liquidation_may_exceed :
    (increaseBalance cappedBank freshBal 0 (5 * ONE) .depositOnly).isOk = false ∧
    (increaseBalance cappedBank freshBal 0 (5 * ONE) .bypassDepositLimit).isOk = true := by decide


/-! ### "deposit up to the limit" -/

/-- **up_to_limit_le_capacity / never_capacity_error** (bank level): if the remaining capacity is
    computed on the bank state the deposit is then applied to (i.e. after interest accrual — the
    order `lending_account_deposit` uses since `fix: accrue interest before computing the remaining
    deposit capacity`), depositing any amount up to that capacity cannot fail with
    `BankAssetCapacityExceeded`. -/
theorem capacity_deposit_never_exceeds {b : Bank} {c d s : Int}
    (hcap : remainingDepositCapacity b = .ok c) (hact : b.depositLimit ≠ U64MAX)
    (hd0 : 0 < d) (hdc : d ≤ c) (hasv : 0 < b.asv) (hsa : 0 ≤ b.sa)
    (hs : assetShares b (ofInt d) = .ok s) :
    changeAssetShares b s false ≠ .error (.err E.BankAssetCapacityExceeded) := by
  -- unpack the capacity computation
  unfold remainingDepositCapacity at hcap
  have hact' : depositLimitActive b = true := by simp [depositLimitActive, hact]
  simp only [hact', Bool.not_true, Bool.false_eq_true, ↓reduceIte] at hcap
  obtain ⟨cur, hcur, hcap⟩ := Res.bind_ok hcap
  obtain ⟨lim, hlim, hcap⟩ := Res.bind_ok hcap
  by_cases hge : cur ≥ lim
  · simp only [hge, ↓reduceIte] at hcap
    injection hcap with hcap
    omega
  · simp only [hge, ↓reduceIte] at hcap
    obtain ⟨r1, h1, hcap⟩ := Res.bind_ok hcap
    obtain ⟨r2, h2, hcap⟩ := Res.bind_ok hcap
    have e1 := (sub?_some (math_ok h1)).1
    have e2 := (sub?_some (math_ok h2)).1
    obtain ⟨e3, _, _⟩ := Mfi.Props.C17.toU64_floor (math_ok hcap)
    have ecur := (mul?_some (math_ok hcur)).1
    -- shares minted
    unfold assetShares at hs
    have hne : ¬ b.asv = 0 := by omega
    simp only [hne, ↓reduceIte] at hs
    obtain ⟨_, es, _, _⟩ := div?_some (math_ok hs)
    rw [tdiv_nonneg (by unfold ofInt; have := ONE_pos; positivity)] at es
    -- s·asv ≤ d·ONE·ONE
    have hsle : s * b.asv ≤ ofInt d * ONE := by rw [es]; exact Int.ediv_mul_le _ hne
    have hs0 : 0 ≤ s := by rw [es]; exact Int.ediv_nonneg (by unfold ofInt; have := ONE_pos; positivity) (le_of_lt hasv)
    -- now the capped change
    intro hfail
    unfold changeAssetShares at hfail
    cases hopt : add? b.sa s with
    | none => simp [math, Res.ofOpt, hopt, bind, Except.bind] at hfail
    | some sa' =>
      have hadd : math (add? b.sa s) = .ok sa' := by simp [math, Res.ofOpt, hopt]
      rw [hadd] at hfail
      have esa := (add?_some hopt).1
      dsimp only [bind, Except.bind] at hfail
      by_cases hspos : s > 0
      · have hact2 : depositLimitActive { b with sa := sa' } = true := by simp [depositLimitActive, hact]
        simp only [hspos, decide_true, hact2, Bool.and_self, Bool.not_false, ↓reduceIte] at hfail
        cases hopt2 : mul? sa' b.asv with
        | none => simp [assetAmount, math, Res.ofOpt, hopt2, bind, Except.bind] at hfail
        | some tot =>
          have htot : assetAmount { b with sa := sa' } sa' = .ok tot := by simp [assetAmount, math, Res.ofOpt, hopt2]
          rw [htot] at hfail
          have hlim2 : depositLimitFx { b with sa := sa' } = .ok lim := by
            rw [← hlim]; rfl
          rw [hlim2] at hfail
          dsimp only at hfail
          have etot := (mul?_some hopt2).1
          -- tot = (sa + s)·asv / ONE ≤ cur + d·ONE < lim
          have hb : (b.sa + s) * b.asv ≤ b.sa * b.asv + d * ONE * ONE := by
            unfold ofInt at hsle; nlinarith
          have hdiv : (b.sa * b.asv + d * ONE * ONE) / ONE = b.sa * b.asv / ONE + d * ONE := by
            rw [Int.add_mul_ediv_right _ _ (by decide)]
          have htle : tot ≤ cur + d * ONE := by
            rw [etot, esa, ecur, ← hdiv]; exact Int.ediv_le_ediv ONE_pos hb
          have hcone : c * ONE ≤ r2 := by
            rw [e3]; exact mulfloor_le _
          have hdone : d * ONE ≤ c * ONE := mul_le_mul_of_nonneg_right hdc (le_of_lt ONE_pos)
          have : ¬ tot ≥ lim := by
            have := ONE_pos
            omega
          simp only [this, ↓reduceIte] at hfail
          cases hfail
      · simp only [hspos, decide_false, Bool.false_and, Bool.false_eq_true, ↓reduceIte] at hfail
        cases hfail


/-! ### instruction level (`Mfi/Model/Ix.lean`, diffed against the real `lending_account_deposit` by the `ixf` family) -/

/-- **deposit_up_to_limit_amount**: a deposit flagged 'up to limit' books at most the amount asked for and at most the
    remaining capacity of the bank AS ACCRUED to the current time; an unflagged deposit books exactly what was asked -/
theorem deposit_up_to_limit_amount {b : Bank} {amount amt : Int} {up : Bool} (h : Ix.depositAmt b amount up = .ok amt) :
    (up = true → ∃ cap, remainingDepositCapacity b = .ok cap ∧ amt = min amount cap ∧ amt ≤ amount ∧ amt ≤ cap) ∧
    (up = false → amt = amount) := by
  unfold Ix.depositAmt at h
  constructor
  · intro hu
    simp only [hu, ↓reduceIte] at h
    cases hc : remainingDepositCapacity b with
    | error e => rw [hc] at h; cases h
    | ok cap =>
      rw [hc] at h
      injection h with h
      exact ⟨cap, rfl, h.symm, by omega, by omega⟩
  · intro hu
    simp only [hu, Bool.false_eq_true, ↓reduceIte] at h
    injection h with h
    exact h.symm

/-- … and the whole instruction: whatever `lending_account_deposit(amount, up_to_limit = true)` does, the capacity it
    clamps to is the one of the accrued bank, and a zero clamp is a successful no-op on positions -/
theorem ix_deposit_up_to_limit {e : Ix.Env} {b b' : Bank} {bal x' : Option Balance} {amount t : Int}
    (h : Ix.deposit e b bal amount true = .ok (b', x', t)) :
    ∃ b1 cap, accrueInterest b e.ir e.now = .ok b1 ∧ remainingDepositCapacity b1 = .ok cap ∧
      (min amount cap = 0 → b' = b1 ∧ x' = bal ∧ t = 0) ∧
      (min amount cap ≠ 0 → Ix.depositCore e b1 bal (min amount cap) = .ok (b', x', t)) := by
  unfold Ix.deposit at h
  obtain ⟨b1, hb1, h⟩ := Res.bind_ok h
  obtain ⟨amt, ha, h⟩ := Res.bind_ok h
  obtain ⟨cap, hcap, hamt, _, _⟩ := (deposit_up_to_limit_amount ha).1 rfl
  refine ⟨b1, cap, hb1, hcap, ?_, ?_⟩
  · intro h0
    rw [hamt, h0] at h
    simp only [↓reduceIte] at h
    injection h with h
    injection h with e1 h
    injection h with e2 e3
    exact ⟨e1.symm, e2.symm, e3.symm⟩
  · intro h0
    rw [hamt] at h
    simp only [h0, ↓reduceIte] at h
    exact h

open Mfi.Gen.Skel in
/-- **capacity_after_accrual** (over the skeleton regenerated from deposit.rs): the remaining
    capacity used for "deposit up to limit" is computed AFTER `accrue_interest` and before the
    wrapper deposit — so `capacity_deposit_never_exceeds` applies to the state the deposit is
    applied to. (True since `fix: accrue interest before computing the remaining deposit
    capacity`; before it the order was capacity, accrue — replayed by the instruction-level monitor.) -/
theorem capacity_after_accrual :
    occursBefore deposit (isAccrue .bank) (· == .capacity) = true ∧
    occursBefore deposit (· == .capacity) isOp = true := by decide

/-- the deposit-limit scaling of Drift banks uses the table: that table is exactly the powers of ten 10^0 .. 10^23 as I80F48 (regenerated from the real
    constants on every run; the model computes its own powers of ten and is diffed against the real functions across
    ALL 24 decimals) -/
theorem scaling_table_is_powers_of_ten : Mfi.Gen.EXP_10_I80F48 = Mfi.Fx.POW10FX := Mfi.ConstL.exp10_table_exact

/-- the token-denominated accounting this file is about is the only accounting the standard instructions can reach:
    they are constrained to the program's own banks (constraint table regenerated from the source; Mfi.TagL) -/
theorem standard_instructions_only_on_own_banks : Mfi.TagL.OwnBanks :=
  Mfi.TagL.standard_instructions_only_on_own_banks

section whole_instructions
open Mfi Mfi.World Mfi.Gen Mfi.Gen.Acc Mfi.Bank

/-! ### whole instructions (Mfi/Model/World.lean) -/

theorem borrowCore_util {e : Ix.Env} {b b' : Bank} {x x' : Balance} {amount t : Int}
    (h : borrowCore e b x amount = .ok (b', x', t)) :
    ∃ ta tl, assetAmount b' b'.sa = .ok ta ∧ liabAmount b' b'.sl = .ok tl ∧ tl ≤ ta := by
  unfold borrowCore at h
  obtain ⟨pre, _, h⟩ := Res.bind_ok h
  split at h
  · obtain ⟨fee, _, h⟩ := Res.bind_ok h
    obtain ⟨_, _, h⟩ := Res.bind_ok h
    obtain ⟨tot, _, h⟩ := Res.bind_ok h
    obtain ⟨⟨b2, x2⟩, hd, h⟩ := Res.bind_ok h
    dsimp only at h
    have hu := utilization_after hd (by decide)
    split at h
    · injection h with h; injection h with hb _; subst hb; exact hu
    · split at h
      · obtain ⟨pf, _, h⟩ := Res.bind_ok h
        injection h with h; injection h with hb _; subst hb; exact hu
      · injection h with h; injection h with hb _; subst hb; exact hu
  · obtain ⟨⟨b2, x2⟩, hd, h⟩ := Res.bind_ok h
    injection h with h; injection h with hb _; subst hb
    exact utilization_after hd (by decide)

/-- **world_borrow_keeps_deposits_above_debt**: after a successful `lending_account_borrow` (the whole instruction, origination
    fee included) the bank's total deposits are at least its total debt -/
theorem world_borrow_keeps_deposits_above_debt {c : Ctx} {amt : Int} {o : Out} (h : World.borrow c amt = .ok o) :
    ∃ ta tl, assetAmount o.books o.books.sa = .ok ta ∧ liabAmount o.books o.books.sl = .ok tl ∧ tl ≤ ta := by
  obtain ⟨b, slots, i, x, x', _, _, _, _, _, hcore, _⟩ := (borrow_ok h).core
  exact borrowCore_util hcore

theorem withdrawAll_util {b b' : Bank} {x x' : Balance} {now t : Int} (h : withdrawAll b x now = .ok (b', x', t)) :
    ∃ ta tl, assetAmount b' b'.sa = .ok ta ∧ liabAmount b' b'.sl = .ok tl ∧ tl ≤ ta := by
  unfold withdrawAll at h
  obtain ⟨⟨b1, x1⟩, _, h⟩ := Res.bind_ok h
  dsimp only at h
  obtain ⟨curA, _, h⟩ := Res.bind_ok h
  obtain ⟨curL, _, h⟩ := Res.bind_ok h
  obtain ⟨_, _, h⟩ := Res.bind_ok h
  obtain ⟨_, _, h⟩ := Res.bind_ok h
  obtain ⟨bal', _, h⟩ := Res.bind_ok h
  obtain ⟨b2, _, h⟩ := Res.bind_ok h
  obtain ⟨_, hu, h⟩ := Res.bind_ok h
  obtain ⟨dust, _, h⟩ := Res.bind_ok h
  obtain ⟨f, _, h⟩ := Res.bind_ok h
  obtain ⟨amt, _, h⟩ := Res.bind_ok h
  injection h with h; injection h with hb _; subst hb
  exact checkUtil_ok hu

/-- … and after a successful withdrawal, partial or complete -/
theorem world_withdraw_keeps_deposits_above_debt {c : Ctx} {amt : Int} {all : Bool} {o : Out} (h : World.withdraw c amt all = .ok o) :
    ∃ ta tl, assetAmount o.books o.books.sa = .ok ta ∧ liabAmount o.books o.books.sl = .ok tl ∧ tl ≤ ta := by
  obtain ⟨price, b, i, s, x', pre, _, _, _, hcore, _⟩ := (withdraw_ok h).core
  unfold withdrawCore at hcore
  cases all with
  | true => exact withdrawAll_util (by simpa using hcore)
  | false =>
    simp only [Bool.false_eq_true, if_false] at hcore
    obtain ⟨p, _, hcore⟩ := Res.bind_ok hcore
    obtain ⟨⟨b2, x2⟩, hd, hcore⟩ := Res.bind_ok hcore
    injection hcore with hcore; injection hcore with hb _; subst hb
    exact utilization_after hd (by decide)

/-- **world_deposit_below_limit**: after a successful `lending_account_deposit` (the whole instruction: accrual, the
    'up to limit' clamp, the wrapper) that minted deposit shares on a bank with an active deposit limit, the bank's total
    deposits — at the share value accrued to now — are strictly below the limit -/
theorem world_deposit_below_limit {c : Ctx} {amount : Int} {upTo : Bool} {o : Out} (h : World.deposit c amount upTo = .ok o)
    (hact : c.b.books.depositLimit ≠ U64MAX) (hminted : c.b.books.sa < o.books.sa) :
    ∃ tot lim, assetAmount o.books o.books.sa = .ok tot ∧ depositLimitFx o.books = .ok lim ∧ tot < lim := by
  obtain ⟨b, amt, hb, _, hcore⟩ := (deposit_ok h).core
  have ht := accrue_totals hb
  have hl := accrue_limits hb
  split at hcore
  · obtain ⟨_, hbooks, _⟩ := hcore
    rw [hbooks, ht.1] at hminted; omega
  · obtain ⟨slots, i, s, x', _, _, hd, _⟩ := hcore
    unfold Ix.depositCore at hd
    obtain ⟨⟨b2, x2⟩, hinc, hd⟩ := Res.bind_ok hd
    obtain ⟨pre, _, hd⟩ := Res.bind_ok hd
    injection hd with hd; injection hd with hbk _
    dsimp only at hbk
    subst hbk
    exact deposit_below_limit hinc (by decide) (by rw [hl.1]; exact hact) (by rw [ht.1]; exact hminted)

/-- **world_deposit_up_to_limit_books_at_most_the_capacity**: what a deposit flagged 'up to limit' books is at most the
    amount asked for and at most the remaining capacity of the bank as accrued to now; when that is zero the instruction
    succeeds and leaves every position and the bank's totals as accrual left them (it never fails for exceeding the limit:
    `capacity_deposit_never_exceeds` is the bank-level half) -/
theorem world_deposit_up_to_limit_books_at_most_the_capacity {c : Ctx} {amount : Int} {o : Out}
    (h : World.deposit c amount true = .ok o) :
    ∃ b cap, accrueInterest c.b.books c.b.ir c.now = .ok b ∧ remainingDepositCapacity b = .ok cap ∧
      (min amount cap = 0 → o.slots = c.a.slots ∧ o.books = b ∧ o.tokens = 0) ∧
      (min amount cap ≠ 0 → ∃ slots i s x', Account.findOrCreate c.a.slots c.b.key b.assetTag c.now = .ok (slots, i) ∧
          slots[i]? = some s ∧ Ix.depositCore c.ixEnv b (some (toBal s)) (min amount cap) = .ok (o.books, x', o.tokens)) := by
  obtain ⟨b, amt, hb, ha, hcore⟩ := (deposit_ok h).core
  obtain ⟨cap, hcap, hamt, _, _⟩ := (deposit_up_to_limit_amount ha).1 rfl
  refine ⟨b, cap, hb, hcap, ?_, ?_⟩
  · intro h0
    rw [hamt, h0] at hcore
    simpa using hcore
  · intro h0
    rw [hamt] at hcore
    simp only [h0, ↓reduceIte] at hcore
    obtain ⟨slots, i, s, x', h1, h2, h3, _⟩ := hcore
    exact ⟨slots, i, s, x', h1, h2, h3⟩

theorem borrowCore_below_limit {e : Ix.Env} {b b' : Bank} {x x' : Balance} {amount t : Int}
    (h : borrowCore e b x amount = .ok (b', x', t)) (hact : b.borrowLimit ≠ U64MAX) (hminted : b.sl < b'.sl) :
    ∃ tot, liabAmount b' b'.sl = .ok tot ∧ tot < ofInt b'.borrowLimit := by
  unfold borrowCore at h
  obtain ⟨pre, _, h⟩ := Res.bind_ok h
  split at h
  · obtain ⟨fee, _, h⟩ := Res.bind_ok h
    obtain ⟨_, _, h⟩ := Res.bind_ok h
    obtain ⟨tot, _, h⟩ := Res.bind_ok h
    obtain ⟨⟨b2, x2⟩, hd, h⟩ := Res.bind_ok h
    dsimp only at h
    split at h
    · injection h with h; injection h with hb _; subst hb; exact borrow_below_limit hd (by decide) hact hminted
    · split at h
      · obtain ⟨pf, _, h⟩ := Res.bind_ok h
        injection h with h; injection h with hb _; subst hb
        have r := borrow_below_limit hd (t := .borrowOnly) (by decide) hact hminted
        exact r
      · injection h with h; injection h with hb _; subst hb
        have r := borrow_below_limit hd (t := .borrowOnly) (by decide) hact hminted
        exact r
  · obtain ⟨⟨b2, x2⟩, hd, h⟩ := Res.bind_ok h
    injection h with h; injection h with hb _; subst hb
    exact borrow_below_limit hd (by decide) hact hminted

/-- **world_borrow_below_limit**: after a successful `lending_account_borrow` (the whole instruction, origination fee
    included in the debt) that minted debt shares on a bank with an active borrow limit, the bank's total debt — at the share
    value accrued to now — is strictly below the limit -/
theorem world_borrow_below_limit {c : Ctx} {amt : Int} {o : Out} (h : World.borrow c amt = .ok o)
    (hact : c.b.books.borrowLimit ≠ U64MAX) (hminted : c.b.books.sl < o.books.sl) :
    ∃ tot, liabAmount o.books o.books.sl = .ok tot ∧ tot < ofInt o.books.borrowLimit := by
  obtain ⟨b, slots, i, x, x', hb, _, _, _, _, hcore, _⟩ := (borrow_ok h).core
  have ht := accrue_totals hb
  have hl := accrue_limits hb
  exact borrowCore_below_limit hcore (by rw [hl.2]; exact hact) (by rw [ht.2]; exact hminted)

/-! ### … in every committed transaction -/

/-- **world_tx_every_borrow_respects_the_caps**: every borrow of a COMMITTED transaction of the world machine — inside or outside
    a flash-loan bracket, by whoever — ran on a reached state and left its bank with total deposits at least total debt, and, on a
    bank with an active borrow limit whose debt shares it raised, with total debt strictly below the limit (the flash-loan bracket
    suspends the HEALTH check, never the caps) -/
theorem world_tx_every_borrow_respects_the_caps {w w' : WState} {tx : List TOp} (h : w.runTx tx = some w')
    {i ai bi signer : Nat} {amount : Int} (hi : tx[i]? = some (.ix (.borrow ai bi signer amount))) :
    ∃ (wi : WState) (a : AcctV) (b : WBank) (o : Out), w.before tx i = some wi ∧ wi.accts[ai]? = some a ∧ wi.banks[bi]? = some b ∧
      World.borrow (wi.ctx a b signer b.v.liquidityVault 0) amount = .ok o ∧
      (∃ ta tl, assetAmount o.books o.books.sa = .ok ta ∧ liabAmount o.books o.books.sl = .ok tl ∧ tl ≤ ta) ∧
      (b.v.books.borrowLimit ≠ U64MAX → b.v.books.sl < o.books.sl →
        ∃ tot, liabAmount o.books o.books.sl = .ok tot ∧ tot < ofInt o.books.borrowLimit) := by
  obtain ⟨wi, a, b, o, hbef, ha, hb, ho⟩ := tx_borrow_ran h hi
  refine ⟨wi, a, b, o, hbef, ha, hb, ho, world_borrow_keeps_deposits_above_debt ho, ?_⟩
  intro hact hminted
  exact world_borrow_below_limit ho hact hminted

/-- **world_tx_every_deposit_respects_the_limit**: likewise every deposit of a committed transaction that minted deposit shares on
    a bank with an active deposit limit left total deposits strictly below the limit -/
theorem world_tx_every_deposit_respects_the_limit {w w' : WState} {tx : List TOp} (h : w.runTx tx = some w')
    {i ai bi signer : Nat} {amount : Int} {upTo : Bool} (hi : tx[i]? = some (.ix (.deposit ai bi signer amount upTo))) :
    ∃ (wi : WState) (a : AcctV) (b : WBank) (o : Out), w.before tx i = some wi ∧ wi.accts[ai]? = some a ∧ wi.banks[bi]? = some b ∧
      World.deposit (wi.ctx a b signer b.v.liquidityVault 0) amount upTo = .ok o ∧
      (b.v.books.depositLimit ≠ U64MAX → b.v.books.sa < o.books.sa →
        ∃ tot lim, assetAmount o.books o.books.sa = .ok tot ∧ depositLimitFx o.books = .ok lim ∧ tot < lim) := by
  obtain ⟨wi, a, b, o, hbef, ha, hb, ho⟩ := tx_deposit_ran h hi
  refine ⟨wi, a, b, o, hbef, ha, hb, ho, ?_⟩
  intro hact hminted
  exact world_deposit_below_limit ho hact hminted

/-- **world_tx_every_withdrawal_keeps_deposits_above_debt**: and every withdrawal of a committed transaction — the owner's, a
    liquidator's or the risk admin's inside a receivership bracket — left its bank with total deposits at least total debt -/
theorem world_tx_every_withdrawal_keeps_deposits_above_debt {w w' : WState} {tx : List TOp} (h : w.runTx tx = some w')
    {i ai bi signer : Nat} {amount vault : Int} {all : Bool} (hi : tx[i]? = some (.ix (.withdraw ai bi signer amount all vault))) :
    ∃ (wi : WState) (a : AcctV) (b : WBank) (o : Out), w.before tx i = some wi ∧ wi.accts[ai]? = some a ∧ wi.banks[bi]? = some b ∧
      World.withdraw (wi.ctx a b signer b.v.liquidityVault vault) amount all = .ok o ∧
      ∃ ta tl, assetAmount o.books o.books.sa = .ok ta ∧ liabAmount o.books o.books.sl = .ok tl ∧ tl ≤ ta := by
  obtain ⟨wi, a, b, o, hbef, ha, hb, ho⟩ := tx_withdraw_ran h hi
  exact ⟨wi, a, b, o, hbef, ha, hb, ho, world_withdraw_keeps_deposits_above_debt ho⟩

end whole_instructions

end Mfi.Props.C17
