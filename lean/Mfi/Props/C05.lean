/-
  C05 — Liquidation is possible only when unhealthy, improves health, and is bounded.

  Theorems about the liquidation part of Mfi/Model/Risk.lean: `liquidationAmounts` (the amounts block of
  lending_account_liquidate, diffed by the `liq` family against the real calc_value / calc_amount / fee
  constants in the handler's order), `preLiquidationFor` / `postLiquidation` (the two conditions, whose
  maintenance valuation is diffed through the real pulse_health instruction by the `health` family), and
  the handler skeleton regenerated from the source.
-/
import Mfi.Model.Risk
import Mfi.Model.Ix
import Mfi.Lemmas.FxL
import Mfi.Lemmas.ResL
import Mfi.Lemmas.SkelL
import Mfi.Props.C04
import Mfi.Lemmas.ConstL
import Mfi.Lemmas.WorldL
import Mfi.Lemmas.WorldTxL

namespace Mfi.Props.C05
open Mfi Mfi.Fx Mfi.Risk Mfi.Gen Mfi.Props.C09 Mfi.Props.C04

/-! ### only when unhealthy; strictly better, still not positive; no flips -/

theorem pre_spec {ps : List Pos} {lp : Option Pos} {pre : Int} (h : preLiquidationFor ps lp = .ok pre) :
    ∃ p, lp = some p ∧ liabEmpty p = false ∧ assetEmpty p = true ∧ pre ≤ 0 ∧
      ∃ c, components ps .maint = .ok c ∧ pre = c.assets - c.liabs := by
  unfold preLiquidationFor at h
  cases lp with
  | none => simp [Risk.err] at h
  | some p =>
    simp only at h
    split at h
    · simp [Risk.err] at h
    · rename_i hl
      split at h
      · simp [Risk.err] at h
      · rename_i ha
        obtain ⟨⟨hh, a, l⟩, hp, h⟩ := Res.bind_ok h
        injection h with h
        subst h
        unfold preLiquidation at hp
        obtain ⟨c, hc, hp⟩ := Res.bind_ok hp
        obtain ⟨h', hs, hp⟩ := Res.bind_ok hp
        split at hp
        · simp [Risk.err] at hp
        · rename_i hnot
          injection hp with hp
          injection hp with e1 _
          subst e1
          have := (sub?_some (rmath_ok hs)).1
          refine ⟨p, rfl, by simpa using hl, by simpa using ha, ?_, c, hc, this⟩
          simp only [Bool.not_false, Bool.true_eq, decide_eq_true_eq, and_true, not_lt] at hnot
          simpa using hnot

theorem post_spec {ps : List Pos} {lp : Pos} {pre post : Int} (h : postLiquidation ps lp pre = .ok post) :
    liabEmpty lp = false ∧ assetEmpty lp = true ∧ post ≤ 0 ∧ pre < post ∧
      ∃ c, components ps .maint = .ok c ∧ post = c.assets - c.liabs := by
  unfold postLiquidation at h
  split at h
  · simp [Risk.err] at h
  · rename_i hl
    split at h
    · simp [Risk.err] at h
    · rename_i ha
      obtain ⟨c, hc, h⟩ := Res.bind_ok h
      obtain ⟨hh, hs, h⟩ := Res.bind_ok h
      split at h
      · simp [Risk.err] at h
      · rename_i h0
        split at h
        · simp [Risk.err] at h
        · rename_i h1
          injection h with h
          subst h
          have := (sub?_some (rmath_ok hs)).1
          exact ⟨by simpa using hl, by simpa using ha, by simpa using h0, by omega, c, hc, this⟩

/-- **liquidation_window**: a classic liquidation passes its two conditions only if the liquidatee's
    maintenance health was NEGATIVE before, is strictly better afterwards and still not positive; the
    position in the debt bank is a debt (one unit or more) with no deposit before AND after: the repaid
    debt has not flipped into a deposit and is not exhausted. -/
theorem liquidation_window {ps ps' : List Pos} {lp : Option Pos} {lp' : Pos} {pre post : Int}
    (h1 : preLiquidationFor ps lp = .ok pre) (h2 : postLiquidation ps' lp' pre = .ok post) :
    pre < 0 ∧ pre < post ∧ post ≤ 0 ∧
    (∃ p, lp = some p ∧ liabEmpty p = false ∧ assetEmpty p = true) ∧ liabEmpty lp' = false ∧ assetEmpty lp' = true := by
  obtain ⟨p, e, a1, a2, a3, _⟩ := pre_spec h1
  obtain ⟨b1, b2, b3, b4, _⟩ := post_spec h2
  exact ⟨by omega, b4, b3, ⟨p, e, a1, a2⟩, b1, b2⟩

/-- a healthy account (maintenance health above zero) cannot be liquidated -/
theorem healthy_not_liquidatable {ps : List Pos} {c : Comps} (hc : components ps .maint = .ok c)
    (hh : c.liabs < c.assets) (lp : Option Pos) : ∀ pre, preLiquidationFor ps lp ≠ .ok pre := by
  intro pre h
  obtain ⟨_, _, _, _, h0, c', hc', e⟩ := pre_spec h
  rw [hc] at hc'
  injection hc' with hc'
  subst hc'
  omega

/-! ### the amounts: 97.5 % to the liquidator's books, 95 % relief, 2.5 % to insurance -/

def W975 : Int := ONE - LIQUIDATION_LIQUIDATOR_FEE
def W95 : Int := ONE - (LIQUIDATION_INSURANCE_FEE + LIQUIDATION_LIQUIDATOR_FEE)

/-- 0.975 and 0.95 as I80F48 bit patterns (the fee constants are 0.025 rounded down, so the discounts are
    0.975 and 0.95 rounded up by less than one ulp) -/
theorem discounts : W975 = 274438102292890 ∧ W95 = 267401227875124 ∧
    W975 * 1000 / ONE = 975 ∧ (W975 - 1) * 1000 / ONE = 974 ∧ W95 * 1000 / ONE = 950 ∧ (W95 - 1) * 1000 / ONE = 949 := by decide

theorem subP_ok {a b r : Int} (h : subP a b = .ok r) : r = a - b := by
  unfold subP at h; split at h
  · injection h with h; exact h.symm
  · cases h

theorem addP_ok {a b r : Int} (h : addP a b = .ok r) : r = a + b := by
  unfold addP at h; split at h
  · injection h with h; exact h.symm
  · cases h

/-- `calc_amount`: value·10^d / price, rounded down by less than one ulp twice -/
theorem amount_bounds {value price d r scale : Int} (hs : exp10fx d = .ok scale) (hv : 0 ≤ value) (hp : 0 < price)
    (h : calcAmount value price d = .ok r) :
    0 ≤ r ∧ r * price ≤ value * scale ∧ value * scale < (r + 1) * price + ONE := by
  have hsc := exp10fx_pos hs
  have hONE := ONE_pos
  unfold calcAmount at h
  rw [hs] at h
  obtain ⟨sc, e0, h⟩ := Res.bind_ok h
  injection e0 with e0
  subst e0
  obtain ⟨x, hx, h⟩ := Res.bind_ok h
  obtain ⟨ex, _, _⟩ := mul?_some (rmath_ok hx)
  obtain ⟨_, er, _, _⟩ := div?_some (rmath_ok h)
  have n1 : 0 ≤ value * scale := Int.mul_nonneg hv (by omega)
  have xn : 0 ≤ x := by rw [ex]; exact Int.ediv_nonneg n1 (by omega)
  rw [tdiv_nonneg (Int.mul_nonneg xn (by omega))] at er
  have f1a : x * ONE ≤ value * scale := by rw [ex]; exact Int.ediv_mul_le _ (by omega)
  have f1b : value * scale < (x + 1) * ONE := by rw [ex]; exact Int.lt_ediv_add_one_mul_self _ hONE
  have f2a : r * price ≤ x * ONE := by rw [er]; exact Int.ediv_mul_le _ (by omega)
  have f2b : x * ONE < (r + 1) * price := by rw [er]; exact Int.lt_ediv_add_one_mul_self _ hp
  have rn : 0 ≤ r := by rw [er]; exact Int.ediv_nonneg (Int.mul_nonneg xn (by omega)) (by omega)
  have e : (x + 1) * ONE = x * ONE + ONE := by rw [Int.add_mul, Int.one_mul]
  exact ⟨rn, by omega, by omega⟩

/-- **amounts_spec**: the liquidator takes on the debt equivalent of 97.5 % and the liquidatee is relieved
    of the debt equivalent of 95 % of the seized collateral's value (seized tokens × low-biased price),
    converted at the high-biased debt price — each exact up to downward rounding of less than one ulp per
    step; the difference is the insurance fee: its whole-token part is what moves to the insurance vault,
    its fraction goes to the outstanding insurance fees, nothing is lost. -/
theorem amounts_spec {n pa pl da dl sa sl : Int} {r : LiqAmounts} (hsa : exp10fx da = .ok sa) (hsl : exp10fx dl = .ok sl)
    (hn : 0 ≤ n) (hpa : 0 ≤ pa) (hpl : 0 < pl) (h : liquidationAmounts n pa pl da dl = .ok r) :
    (∃ v1 v2,
      -- seized value at 97.5 % and at 95 %
      v1 * sa * ONE ≤ n * ONE * W975 * pa ∧ n * ONE * W975 * pa < (v1 + 1) * sa * ONE + ONE * ONE + ONE * pa ∧
      v2 * sa * ONE ≤ n * ONE * W95 * pa ∧ n * ONE * W95 * pa < (v2 + 1) * sa * ONE + ONE * ONE + ONE * pa ∧
      -- converted into debt tokens at the high-biased debt price
      r.liquidator * pl ≤ v1 * sl ∧ v1 * sl < (r.liquidator + 1) * pl + ONE ∧
      r.final * pl ≤ v2 * sl ∧ v2 * sl < (r.final + 1) * pl + ONE) ∧
    r.fee = r.liquidator - r.final ∧ 0 ≤ r.fee ∧ 0 ≤ r.final ∧
    r.feeWhole = r.fee / ONE ∧ r.feeFrac = r.fee % ONE ∧ r.feeWhole * ONE + r.feeFrac = r.fee ∧
    0 ≤ r.feeFrac ∧ r.feeFrac < ONE := by
  unfold liquidationAmounts at h
  obtain ⟨fees, hf, h⟩ := Res.bind_ok h
  obtain ⟨fd, hfd, h⟩ := Res.bind_ok h
  obtain ⟨ld, hld, h⟩ := Res.bind_ok h
  obtain ⟨v1, hv1, h⟩ := Res.bind_ok h
  obtain ⟨liq, hliq, h⟩ := Res.bind_ok h
  obtain ⟨v2, hv2, h⟩ := Res.bind_ok h
  obtain ⟨fin, hfin, h⟩ := Res.bind_ok h
  obtain ⟨fee, hfee, h⟩ := Res.bind_ok h
  have efd : fd = W95 := by rw [subP_ok hfd, addP_ok hf]; rfl
  have eld : ld = W975 := by rw [subP_ok hld]; rfl
  rw [efd] at hv2
  rw [eld] at hv1
  split at h
  · cases h
  · rename_i hfee0
    cases hu : toU64? fee with
    | none => rw [hu] at h; simp [Risk.err] at h
    | some w =>
      rw [hu] at h
      injection h with h
      subst h
      dsimp only
      have hONE := ONE_pos
      have hamt : 0 ≤ ofInt n := by unfold ofInt; exact Int.mul_nonneg hn (by omega)
      have hw1 : (0 : Int) ≤ W975 := by decide
      have hw2 : (0 : Int) ≤ W95 := by decide
      obtain ⟨v1n, b1, b2⟩ := value_bounds hsa hamt hpa hw1 hv1
      obtain ⟨v2n, b3, b4⟩ := value_bounds hsa hamt hpa hw2 hv2
      obtain ⟨l0, c1, c2⟩ := amount_bounds hsl v1n hpl hliq
      obtain ⟨f0, c3, c4⟩ := amount_bounds hsl v2n hpl hfin
      have efee := subP_ok hfee
      have ew : w = fee / ONE := by
        unfold toU64? at hu
        simp only at hu
        split at hu
        · injection hu with hu; exact hu.symm
        · cases hu
      refine ⟨⟨v1, v2, b1, b2, b3, b4, c1, c2, c3, c4⟩, efee, by omega, f0, ew, rfl, ?_, ?_, ?_⟩
      · simp only [ew, Fx.frac]
        rw [Int.emod_def, Int.mul_comm ONE]
        omega
      · exact Int.emod_nonneg _ (by omega)
      · exact Int.emod_lt_of_pos _ hONE

/-! ### the handler (skeleton regenerated from the source) -/

section tables
open Mfi.Gen.Skel

/-- the pre-condition (with both banks accrued) precedes every balance move; both prices are checked
    positive before the amounts are used; the seized amount is checked against the liquidatee's deposit
    before it is withdrawn (the collateral cannot flip into a debt); the post-condition on the liquidatee
    follows the last balance move; the liquidator's initial-margin check is the last step; the insurance
    fee leaves the liquidity vault under the liquidity-vault authority -/
theorem liquidate_shape :
    occursBefore liquidate (· == .accrue .assetBank) (· == .healthPreLiq) = true ∧
    occursBefore liquidate (· == .accrue .liabBank) (· == .healthPreLiq) = true ∧
    occursBefore liquidate (· == .healthPreLiq) isOp = true ∧
    occursBefore liquidate (· == .zeroAssetPriceCheck) isOp = true ∧
    occursBefore liquidate (· == .zeroLiabPriceCheck) isOp = true ∧
    (liquidate.filter isOp) = [.op .withdrawIgnoreCap, .op .withdrawIgnoreCap, .op .depositIgnoreCap, .op .repay] ∧
    (match lastIdx liquidate isOp, lastIdx liquidate (· == .healthPostLiq) with
      | some o, some p => decide (o < p) | _, _ => false) = true ∧
    liquidate.getLast? = some .healthInit ∧
    (liquidate.filter (isSigner .insurance)).length = 0 ∧ (liquidate.filter (isSigner .liquidity)).length = 1 ∧
    liquidate.contains .overLiqCheck = true := by decide

/-- every one of these calls is unconditional: none sits inside an `if`, a match arm, a loop or a closure —
    in particular the liquidator's closing initial-margin check and the two liquidatee conditions -/
theorem liquidate_unconditional :
    allUnconditional liquidate_cond = true ∧ liquidate_cond.length = liquidate.length := by decide

/-- both accounts must not be in a flash loan (risk-engine entry points), the liquidatee's liquidation and
    the liquidator's authorization are account constraints (C08) -/
theorem liquidate_refuses_flashloan :
    re_pre_liquidation.head? = some (.acctFlag .inFlashloan) ∧ re_post_liquidation.head? = some (.acctFlag .inFlashloan) := by
  decide

end tables

/-! ### the whole accounting block of the real instruction (`Mfi/Model/Ix.lean`, diffed bit for bit by the `liqix` family) -/

/-- **liquidate_uses_the_amounts**: an accepted liquidation (a) prices with positive prices only, (b) evaluates the
    amounts block — to which `amounts_spec` / `amount_bounds` apply — with each bank's BALANCE decimals on the banks as
    accrued to the current time, (c) moves exactly `liquidator` onto the liquidator's debt-bank position, `final` off
    the liquidatee's, the seized amount between the two collateral positions, and (d) sends the whole tokens of the
    difference to the insurance vault and books its fraction as outstanding insurance fees. -/
theorem liquidate_uses_the_amounts {irA irL : Interest.IrCalc} {now : Int} {a0 l0 : Bank.Bank}
    {q1 q3 : Option Bank.Balance} {x2 x4 : Bank.Balance} {amt pa pl : Int} {o : Ix.LiqOut}
    (h : Ix.liquidate irA irL now a0 l0 q1 x2 q3 x4 amt pa pl = .ok o) :
    ∃ a1 l1 amts r1 r2 r3 r4,
      Bank.accrueInterest a0 irA now = .ok a1 ∧ Bank.accrueInterest l0 irL now = .ok l1 ∧ 0 < pa ∧ 0 < pl ∧
      liquidationAmounts amt pa pl (Bank.balanceDecimals a1) (Bank.balanceDecimals l1) = .ok amts ∧
      Bank.decreaseBalance l1 (q1.getD (Ix.freshBalance l1 now)) now amts.liquidator .bypassBorrowLimit = .ok r1 ∧
      Bank.decreaseBalance a1 x2 now (ofInt amt) .bypassBorrowLimit = .ok r2 ∧
      Bank.increaseBalance r2.1 (q3.getD (Ix.freshBalance r2.1 now)) now (ofInt amt) .bypassDepositLimit = .ok r3 ∧
      Bank.increaseBalance r1.1 x4 now amts.final .repayOnly = .ok r4 ∧
      o.insuranceTokens = amts.feeWhole ∧ o.liabBank.feeI = r4.1.feeI + amts.feeFrac ∧
      o.lqLiab = r1.2 ∧ o.leAsset = r2.2 ∧ o.lqAsset = r3.2 ∧ o.leLiab = r4.2 := by
  unfold Ix.liquidate at h
  obtain ⟨a1, ha, h⟩ := Res.bind_ok h
  obtain ⟨l1, hl, h⟩ := Res.bind_ok h
  obtain ⟨_, hpa, h⟩ := Res.bind_ok h
  obtain ⟨_, hpl, h⟩ := Res.bind_ok h
  obtain ⟨amts, hamts, h⟩ := Res.bind_ok h
  obtain ⟨r1, h1, h⟩ := Res.bind_ok h
  obtain ⟨pre, _, h⟩ := Res.bind_ok h
  obtain ⟨_, _, h⟩ := Res.bind_ok h
  obtain ⟨r2, h2, h⟩ := Res.bind_ok h
  obtain ⟨r3, h3, h⟩ := Res.bind_ok h
  obtain ⟨r4, h4, h⟩ := Res.bind_ok h
  obtain ⟨f, hf, h⟩ := Res.bind_ok h
  injection h with h
  subst h
  have e1 : 0 < pa := by
    unfold Bank.chk at hpa; split at hpa
    · rename_i hc; simpa using hc
    · cases hpa
  have e2 : 0 < pl := by
    unfold Bank.chk at hpl; split at hpl
    · rename_i hc; simpa using hc
    · cases hpl
  have e3 := (add?_some (Bank.math_ok hf)).1
  exact ⟨a1, l1, amts, r1, r2, r3, r4, ha, hl, e1, e2, hamts, h1, h2, h3, h4, rfl, e3, rfl, rfl, rfl, rfl⟩

/-! ### non-vacuity -/

example : ∃ r, liquidationAmounts 1000000 (10 * ONE) (2 * ONE) 6 6 = .ok r ∧ r.final < r.liquidator ∧
    4874999 * ONE < r.liquidator ∧ r.liquidator < 4875001 * ONE ∧ 4749999 * ONE < r.final ∧ r.final < 4750001 * ONE :=
  ⟨_, by rfl, by decide, by decide, by decide, by decide, by decide⟩

/-- the liquidation amounts (calc_value / calc_amount) divide and multiply by rows of the scaling table: that table is exactly the powers of ten 10^0 .. 10^23 as I80F48 (regenerated from the real
    constants on every run; the model computes its own powers of ten and is diffed against the real functions across
    ALL 24 decimals) -/
theorem scaling_table_is_powers_of_ten : Mfi.Gen.EXP_10_I80F48 = Mfi.Fx.POW10FX := Mfi.ConstL.exp10_table_exact

section whole_instructions
open Mfi Mfi.World Mfi.Gen Mfi.Gen.Acc Mfi.Risk

/-! ### the whole instruction (Mfi/Model/World.lean: `World.liquidate`) -/

theorem stateOf_ok {op : Int} {k : Gate.Kind} (h : stateOf op k = .ok ()) :
    ∃ s, Gate.OpState.ofInt op = some s ∧ Gate.validateBankState s k = none := by
  unfold stateOf at h
  split at h
  · cases h
  · rename_i s hs
    split at h
    · rename_i hv; exact ⟨s, hs, hv⟩
    · cases h

/-- **world_liquidate_spec**: `lending_account_liquidate` goes through only
    * in a group that is not paused; both banks and both accounts belong to it; the debt bank is one of the program's own;
      neither account is in receivership; the signer is entitled to act for the LIQUIDATOR (authority, or group admin of a
      frozen account — no receivership path);
    * for a positive amount, two different banks, neither paused nor killed;
    * when the engine's pre-condition holds on the liquidatee's portfolio with both banks ACCRUED — so maintenance health
      was negative and the position in the debt bank is a pure debt (`liquidation_window`);
    * at a positive low-biased collateral price and a positive high-biased debt price;
    * when, after the four balance moves, the engine's post-condition holds on the liquidatee's portfolio AS LEFT (health
      strictly better, still not positive, the debt neither flipped nor exhausted);
    * and the liquidator's portfolio as left passes the initial-margin check (unless it is inside a flash loan, whose end
      enforces it). -/
theorem world_liquidate_spec {c : LiqCtx} {amount : Int} {o : LiqOutW} (h : World.liquidate c amount = .ok o) :
    (c.g.paused = false ∧ c.ab.group = c.g.key ∧ c.lb.group = c.g.key ∧ c.lq.group = c.g.key ∧ c.le.group = c.g.key ∧
      tagIs .marginfi c.lb.books.assetTag = true ∧
      hasFlag c.lq.flags ACCOUNT_IN_RECEIVERSHIP = false ∧ hasFlag c.le.flags ACCOUNT_IN_RECEIVERSHIP = false ∧
      Auth.notFrozenForAuthority (acctView c.lq.authority c.lq.flags) c.signer = true ∧
      Auth.isSignerAuthorized (acctView c.lq.authority c.lq.flags) c.g.admin c.signer false = true) ∧
    0 < amount ∧ c.ab.key ≠ c.lb.key ∧
    (∃ s, Gate.OpState.ofInt c.ab.opState = some s ∧ Gate.validateBankState s .failsInPausedState = none) ∧
    (∃ s, Gate.OpState.ofInt c.lb.opState = some s ∧ Gate.validateBankState s .failsInPausedState = none) ∧
    hasFlag c.le.flags ACCOUNT_IN_FLASHLOAN = false ∧
    ∃ a l ps pre ap lp ps' lp' post,
      Bank.accrueInterest c.ab.books c.ab.ir c.now = .ok a ∧ Bank.accrueInterest c.lb.books c.lb.ir c.now = .ok l ∧
      portfolio2 c.risk (Account.sortBalances c.le.slots) c.ab.key a c.lb.key l = .ok ps ∧
      preLiquidationFor ps (posOf ps (Account.sortBalances c.le.slots) c.lb.key) = .ok pre ∧
      feedPrice c.risk c.ab.key .low = .ok ap ∧ 0 < ap ∧ feedPrice c.risk c.lb.key .high = .ok lp ∧ 0 < lp ∧
      portfolio2 c.risk o.leSlots c.ab.key o.assetBooks c.lb.key o.liabBooks = .ok ps' ∧
      postLiquidation ps' lp' pre = .ok post ∧
      pre < 0 ∧ pre < post ∧ post ≤ 0 ∧
      (hasFlag c.lq.flags ACCOUNT_IN_FLASHLOAN = true ∨
        ∃ qs, portfolio2 c.risk o.lqSlots c.ab.key o.assetBooks c.lb.key o.liabBooks = .ok qs ∧ checkInitHealth qs = .ok ()) := by
  unfold World.liquidate at h
  obtain ⟨_, hc, h⟩ := Res.bind_ok h
  obtain ⟨_, hamt, h⟩ := Res.bind_ok h
  obtain ⟨_, hdiff, h⟩ := Res.bind_ok h
  obtain ⟨_, _, h⟩ := Res.bind_ok h
  obtain ⟨_, hsa, h⟩ := Res.bind_ok h
  obtain ⟨_, hsl, h⟩ := Res.bind_ok h
  obtain ⟨_, _, h⟩ := Res.bind_ok h
  obtain ⟨_, _, h⟩ := Res.bind_ok h
  obtain ⟨_, _, h⟩ := Res.bind_ok h
  obtain ⟨a, ha, h⟩ := Res.bind_ok h
  obtain ⟨l, hl, h⟩ := Res.bind_ok h
  obtain ⟨_, hfl, h⟩ := Res.bind_ok h
  obtain ⟨ps, hps, h⟩ := Res.bind_ok h
  obtain ⟨pre, hpre, h⟩ := Res.bind_ok h
  obtain ⟨ap, hap, h⟩ := Res.bind_ok h
  obtain ⟨_, hap0, h⟩ := Res.bind_ok h
  obtain ⟨lp, hlp, h⟩ := Res.bind_ok h
  obtain ⟨_, hlp0, h⟩ := Res.bind_ok h
  obtain ⟨⟨aLq, aFin, aFee⟩, _, h⟩ := Res.bind_ok h
  dsimp only at h
  obtain ⟨⟨lq1, i1⟩, _, h⟩ := Res.bind_ok h
  dsimp only at h
  obtain ⟨x1, _, h⟩ := Res.bind_ok h
  obtain ⟨r1, _, h⟩ := Res.bind_ok h
  obtain ⟨i2, _, h⟩ := Res.bind_ok h
  obtain ⟨x2, _, h⟩ := Res.bind_ok h
  obtain ⟨preA, _, h⟩ := Res.bind_ok h
  obtain ⟨_, _, h⟩ := Res.bind_ok h
  obtain ⟨r2, _, h⟩ := Res.bind_ok h
  obtain ⟨⟨lq3, i3⟩, _, h⟩ := Res.bind_ok h
  dsimp only at h
  obtain ⟨x3, _, h⟩ := Res.bind_ok h
  obtain ⟨r3, _, h⟩ := Res.bind_ok h
  obtain ⟨fw, _, h⟩ := Res.bind_ok h
  obtain ⟨i4, _, h⟩ := Res.bind_ok h
  obtain ⟨x4, _, h⟩ := Res.bind_ok h
  obtain ⟨r4, _, h⟩ := Res.bind_ok h
  obtain ⟨f, _, h⟩ := Res.bind_ok h
  obtain ⟨ps', hps', h⟩ := Res.bind_ok h
  obtain ⟨lp', _, h⟩ := Res.bind_ok h
  obtain ⟨post, hpost, h⟩ := Res.bind_ok h
  obtain ⟨_, hq, h⟩ := Res.bind_ok h
  injection h with h
  subst h
  have hc' := runChecks_ok hc
  simp only [checks, List.forall_mem_cons, List.not_mem_nil, false_imp_iff, implies_true, and_true] at hc'
  simp [evalChk, LiqCtx.env, flBit, flagsOf, AccV.key] at hc'
  obtain ⟨c1, c2, c3, c4, c5, c6, c7, c8, c9, c10⟩ := hc'
  have hw := liquidation_window hpre hpost
  refine ⟨⟨c1, c2, c3, c5, c9, c4, c6, c10, c7, c8⟩, by simpa using Bank.chk_ok hamt, by simpa using Bank.chk_ok hdiff,
    stateOf_ok hsa, stateOf_ok hsl, by simpa using Bank.chk_ok hfl,
    a, l, ps, pre, ap, lp, ps', lp', post, ha, hl, hps, hpre, hap, by simpa using Bank.chk_ok hap0, hlp,
    by simpa using Bank.chk_ok hlp0, hps', hpost, hw.1, hw.2.1, hw.2.2.1, ?_⟩
  by_cases hflq : hasFlag c.lq.flags ACCOUNT_IN_FLASHLOAN = true
  · exact Or.inl hflq
  · right
    rw [if_neg hflq] at hq
    obtain ⟨qs, hqs, hq⟩ := Res.bind_ok hq
    exact ⟨qs, hqs, hq⟩

end whole_instructions

section whole_instructions
open Mfi Mfi.World Mfi.Gen Mfi.Risk

/-- **world_tx_every_liquidation_is_of_an_unhealthy_account**: every classic liquidation of a COMMITTED transaction of the world
    machine — whatever else the transaction contains, the liquidator inside a flash loan or not — ran on a reached state on which
    the liquidatee's maintenance health, with both banks accrued, was NEGATIVE beforehand, and left it strictly better and still
    not positive; the liquidatee was neither in receivership nor inside a flash loan -/
theorem world_tx_every_liquidation_is_of_an_unhealthy_account {w w' : WState} {tx : List TOp} (h : w.runTx tx = some w')
    {i qi ei abi lbi signer : Nat} {amount : Int} (hi : tx[i]? = some (.ix (.liquidate qi ei abi lbi signer amount))) :
    ∃ (c : LiqCtx) (o : LiqOutW),
      (∃ (wi : WState) (lq le : AcctV) (ab lb : WBank), w.before tx i = some wi ∧ wi.accts[qi]? = some lq ∧ wi.accts[ei]? = some le ∧
        wi.banks[abi]? = some ab ∧ wi.banks[lbi]? = some lb ∧ c = wi.liqCtx lq le ab lb signer) ∧
      World.liquidate c amount = .ok o ∧ 0 < amount ∧
      hasFlag c.le.flags ACCOUNT_IN_RECEIVERSHIP = false ∧ hasFlag c.le.flags ACCOUNT_IN_FLASHLOAN = false ∧
      ∃ a l ps pre ps' lp' post,
        Bank.accrueInterest c.ab.books c.ab.ir c.now = .ok a ∧ Bank.accrueInterest c.lb.books c.lb.ir c.now = .ok l ∧
        portfolio2 c.risk (Account.sortBalances c.le.slots) c.ab.key a c.lb.key l = .ok ps ∧
        preLiquidationFor ps (posOf ps (Account.sortBalances c.le.slots) c.lb.key) = .ok pre ∧
        portfolio2 c.risk o.leSlots c.ab.key o.assetBooks c.lb.key o.liabBooks = .ok ps' ∧
        postLiquidation ps' lp' pre = .ok post ∧
        pre < 0 ∧ pre < post ∧ post ≤ 0 := by
  obtain ⟨wi, lq, le, ab, lb, o, hbef, hq, he, hab, hlb, ho⟩ := tx_liquidate_ran h hi
  obtain ⟨⟨_, _, _, _, _, _, _, hrecv, _, _⟩, hamt, _, _, _, hfl, a, l, ps, pre, ap, lp, ps', lp', post, ha, hl, hps, hpre, _, _, _, _, hps', hpost, h1, h2, h3, _⟩ :=
    world_liquidate_spec ho
  exact ⟨_, o, ⟨wi, lq, le, ab, lb, hbef, hq, he, hab, hlb, rfl⟩, ho, hamt, hrecv, hfl, a, l, ps, pre, ps', lp', post, ha, hl, hps, hpre, hps', hpost, h1, h2, h3⟩

/-- the amounts the whole-instruction model computes (`World.liqAmountsLate`, the handler's own order: the insurance fee is
    converted to whole tokens only after the third balance move) are the amounts of `Risk.liquidationAmounts`, about which
    `amounts_spec` / `amount_bounds` speak: same liquidator side, same liquidatee relief, same fee, the whole part to the
    insurance vault and the fraction to the outstanding insurance fees -/
theorem world_liquidation_amounts_are_the_amounts {amount ap lp dA dL lq fin fee w : Int}
    (h : liqAmountsLate amount ap lp dA dL = .ok (lq, fin, fee)) (hw : Fx.toU64? fee = some w) :
    liquidationAmounts amount ap lp dA dL = .ok { liquidator := lq, final := fin, fee := fee, feeWhole := w, feeFrac := Fx.frac fee } := by
  unfold liqAmountsLate at h
  unfold liquidationAmounts
  obtain ⟨fees, h1, h⟩ := Res.bind_ok h
  obtain ⟨fd, h2, h⟩ := Res.bind_ok h
  obtain ⟨ld, h3, h⟩ := Res.bind_ok h
  obtain ⟨v1, h4, h⟩ := Res.bind_ok h
  obtain ⟨l1, h5, h⟩ := Res.bind_ok h
  obtain ⟨v2, h6, h⟩ := Res.bind_ok h
  obtain ⟨f1, h7, h⟩ := Res.bind_ok h
  obtain ⟨fe, h8, h⟩ := Res.bind_ok h
  split at h
  · cases h
  · rename_i hneg
    injection h with h
    injection h with e1 e2
    injection e2 with e2 e3
    subst e1; subst e2; subst e3
    simp only [h1, h2, h3, h4, h5, h6, h7, h8, bind, Except.bind, hneg, if_false, hw]

end whole_instructions

end Mfi.Props.C05
