/-
  C03 — No free value: no operation or round trip pays out more than it debits.

  Values are compared exactly, in units of 2^-96 tokens: a position's asset value is
  `shares·asv` (product of two 2^-48 bit patterns), `n` tokens are `n·2^96`. The theorems about
  Mfi/Model/Bank.lean (diffed against the real BankAccountWrapper by the `wrapper` family) are proved in
  Mfi/Lemmas/FreeL.lean and restated here in full; the theorems about the WHOLE instructions of Mfi/Model/World.lean are
  proved in Mfi/Lemmas/WorldFree.lean.
-/
import Mfi.Lemmas.FreeL
import Mfi.Lemmas.WorldFree
import Mfi.Lemmas.WorldTxSolv

namespace Mfi.Props.C03
open Mfi Mfi.Fx Mfi.Bank Mfi.Gen Mfi.Token

export Mfi.FreeL (netValue Holder UserOp phi applyOp opAmount Good runOps FeeCfgOk demoBank demoUser)

/-- trunc(v·2^48 / sv)·sv ≤ v·2^48 : shares bought with `v` are worth at most `v` -/
theorem shares_value_le {v sv s : Int} (hv : 0 ≤ v) (hsv : 0 < sv) (h : div? v sv = some s) :
    s * sv ≤ v * ONE ∧ v * ONE < (s + 1) * sv ∧ 0 ≤ s :=
  Mfi.FreeL.shares_value_le hv hsv h

theorem assetShares_spec {b : Bank} {v s : Int} (hv : 0 ≤ v) (hsv : 0 < b.asv) (h : assetShares b v = .ok s) :
    s * b.asv ≤ v * ONE ∧ v * ONE < (s + 1) * b.asv ∧ 0 ≤ s :=
  Mfi.FreeL.assetShares_spec hv hsv h

theorem liabShares_spec {b : Bank} {v s : Int} (hv : 0 ≤ v) (hsv : 0 < b.lsv) (h : liabShares b v = .ok s) :
    s * b.lsv ≤ v * ONE ∧ v * ONE < (s + 1) * b.lsv ∧ 0 ≤ s :=
  Mfi.FreeL.liabShares_spec hv hsv h

/-- **deposit_credit_le / repay_relief_le**: any successful balance increase by `delta` (deposit,
    repay, liquidation credit) raises the position's net value by AT MOST `delta` — never more than
    was paid in. Holds for every share value, position and amount. -/
theorem increase_no_gain {b0 b' : Bank} {x0 x' : Balance} {now delta : Int} {t : IncType}
    (h : increaseBalance b0 x0 now delta t = .ok (b', x'))
    (hd : 0 ≤ delta) (hasv : 0 < b0.asv) (hlsv : 0 < b0.lsv) (hl : 0 ≤ x0.l) :
    netValue b' x' - netValue b0 x0 ≤ delta * ONE :=
  Mfi.FreeL.increase_no_gain h hd hasv hlsv hl

/-- **withdraw_payout_le / borrow_debit_ge**: any successful balance decrease by `delta` (withdraw,
    borrow, liquidation debit) lowers the position's net value by MORE than `delta − (asv + lsv)·2^-48`:
    the user is paid `delta` and gives up at least that, up to one ulp of each share value. -/
theorem decrease_bounded_gain {b0 b' : Bank} {x0 x' : Balance} {now delta : Int} {t : DecType}
    (h : decreaseBalance b0 x0 now delta t = .ok (b', x'))
    (hd : 0 ≤ delta) (hasv : 0 < b0.asv) (hlsv : 0 < b0.lsv) (ha0 : 0 ≤ x0.a) :
    delta * ONE - (b0.asv + b0.lsv) < netValue b0 x0 - netValue b' x' :=
  Mfi.FreeL.decrease_bounded_gain h hd hasv hlsv ha0

/-- **withdraw_all rounds down**: the tokens paid by a full withdrawal never exceed the exact value
    of the closed deposit (`payout·2^96 ≤ shares·asv`); the only thing the user can "gain" is the
    dust debt (value below ZERO_AMOUNT_THRESHOLD, checked by the code) that closing abandons. -/
theorem withdraw_all_rounds_down {b0 b' : Bank} {x0 x' : Balance} {now amt : Int}
    (h : withdrawAll b0 x0 now = .ok (b', x', amt)) (hasv : 0 ≤ b0.asv) (ha : 0 ≤ x0.a) :
    amt * ONE * ONE ≤ x0.a * b0.asv ∧ x'.a = 0 ∧ x'.l = 0 ∧ x'.active = false ∧
    (∃ curL, liabAmount b0 x0.l = .ok curL ∧ isZeroTol curL ZERO_AMOUNT_THRESHOLD = true) :=
  Mfi.FreeL.withdraw_all_rounds_down h hasv ha

/-- **repay_all rounds up**: the tokens charged by a full repayment are at least the exact value
    of the closed debt minus one 2^-48 ulp (`charge·2^96 > shares·lsv − 2^48`). -/
theorem repay_all_rounds_up {b0 b' : Bank} {x0 x' : Balance} {now amt : Int}
    (h : repayAll b0 x0 now = .ok (b', x', amt)) :
    x0.l * b0.lsv - ONE < amt * ONE * ONE ∧ x'.a = 0 ∧ x'.l = 0 ∧ x'.active = false :=
  Mfi.FreeL.repay_all_rounds_up h

theorem map_ok {α β : Type} {r : Res α} {f : α → β} {y : β} (h : r.map f = .ok y) : ∃ a, r = .ok a ∧ f a = y :=
  Mfi.FreeL.map_ok h

/-- share values are untouched by user operations -/
theorem inc_sv {b0 b' : Bank} {x0 x' : Balance} {now delta : Int} {t : IncType}
    (h : increaseBalance b0 x0 now delta t = .ok (b', x')) : b'.asv = b0.asv ∧ b'.lsv = b0.lsv :=
  Mfi.FreeL.inc_sv h

theorem dec_sv {b0 b' : Bank} {x0 x' : Balance} {now delta : Int} {t : DecType}
    (h : decreaseBalance b0 x0 now delta t = .ok (b', x')) : b'.asv = b0.asv ∧ b'.lsv = b0.lsv :=
  Mfi.FreeL.dec_sv h

/-- position shares stay non-negative -/
theorem inc_nonneg {b0 b' : Bank} {x0 x' : Balance} {now delta : Int} {t : IncType}
    (h : increaseBalance b0 x0 now delta t = .ok (b', x'))
    (hd : 0 ≤ delta) (hasv : 0 < b0.asv) (hlsv : 0 < b0.lsv) (ha : 0 ≤ x0.a) (hl : 0 ≤ x0.l) :
    0 ≤ x'.a ∧ 0 ≤ x'.l :=
  Mfi.FreeL.inc_nonneg h hd hasv hlsv ha hl

theorem dec_nonneg {b0 b' : Bank} {x0 x' : Balance} {now delta : Int} {t : DecType}
    (h : decreaseBalance b0 x0 now delta t = .ok (b', x'))
    (hd : 0 ≤ delta) (hasv : 0 < b0.asv) (hlsv : 0 < b0.lsv) (ha : 0 ≤ x0.a) (hl : 0 ≤ x0.l) :
    0 ≤ x'.a ∧ 0 ≤ x'.l :=
  Mfi.FreeL.dec_nonneg h hd hasv hlsv ha hl

/-- **op_gain_le**: one successful deposit / withdraw / borrow / repay of a non-negative token amount
    changes `wallet + net position value` by LESS than (asv + lsv)·2^-48 tokens — and not at all
    in the user's favour for deposits and repayments. -/
theorem op_gain_le {b b' : Bank} {u u' : Holder} {now : Int} {op : UserOp}
    (h : applyOp b u now op = .ok (b', u')) (hg : Good b u) (hn : 0 ≤ opAmount op) :
    phi b' u' < phi b u + (b.asv + b.lsv) ∧ Good b' u' ∧ b'.asv = b.asv ∧ b'.lsv = b.lsv :=
  Mfi.FreeL.op_gain_le h hg hn

/-- **round_trip**: for EVERY sequence (any length, any order, any amounts, any timestamps) of
    deposits, withdrawals, borrows and repayments on a position at unchanged share values, the
    user's wallet plus net position value grows by less than n·(asv+lsv)·2^-48 tokens in total —
    i.e. no sequence extracts value; each operation can at most recover rounding dust below one
    ulp of each share value. -/
theorem round_trip (ops : List (Int × UserOp)) :
    ∀ (b : Bank) (u : Holder), Good b u → (∀ p ∈ ops, 0 ≤ opAmount p.2) →
      phi (runOps b u ops).1 (runOps b u ops).2 ≤ phi b u + ops.length * (b.asv + b.lsv) ∧
      (runOps b u ops).1.asv = b.asv ∧ (runOps b u ops).1.lsv = b.lsv :=
  Mfi.FreeL.round_trip ops

theorem chkU64_some {x y : Int} (h : chkU64 x = some y) : y = x ∧ 0 ≤ x ∧ x ≤ U64MAX :=
  Mfi.FreeL.chkU64_some h

/-- **prefee_covers**: for every Token-2022 transfer-fee configuration (0 ≤ bps ≤ 10000, any cap)
    and every amount, the pre-fee amount marginfi pulls from the depositor, minus the fee the token
    program then withholds, is at least the amount booked: the vault never receives less than the
    bank credits. -/
theorem prefee_covers {bps maxFee post pre f : Int} (hb0 : 0 ≤ bps) (hb1 : bps ≤ 10000) (hm : 0 ≤ maxFee)
    (hp : 0 ≤ post) (h : preFee bps maxFee post = some pre) (hf : fee bps maxFee pre = some f) :
    post ≤ pre - f :=
  Mfi.FreeL.prefee_covers hb0 hb1 hm hp h hf

/-- **mint_prefee_covers**: the same at the level of the MINT, in every epoch — before, exactly at and after the activation
    of a scheduled fee change: the pre-fee amount marginfi computes for the mint (`calculate_pre_fee_spl_deposit_amount`), minus
    what the token program withholds from that transfer in that epoch (`calculate_epoch_fee`: the newer fee FROM its activation
    epoch on), is at least the amount booked. Both sides are tied to the code by the `tf.mint` lines of the tokenfee family: the
    real helpers and the real token program's arithmetic on really laid-out mint accounts. -/
theorem mint_prefee_covers {m : Mint} {epoch post pre f : Int} (hp : 0 ≤ post)
    (hm : ∀ c, m = .t22fee c → FeeCfgOk c)
    (h : mintPre m epoch post = some pre) (hf : mintFee m epoch pre = some f) : post ≤ pre - f :=
  Mfi.FreeL.mint_prefee_covers hp hm h hf

/-- the epoch rule is inclusive: in the activation epoch itself the NEWER fee is the one in force -/
theorem epoch_fee_inclusive (c : FeeCfg) : epochFee c c.newerEpoch = (c.newerBps, c.newerMax) :=
  Mfi.FreeL.epoch_fee_inclusive c

/-- the token-denominated accounting this file is about is the only accounting the standard instructions can reach:
    they are constrained to the program's own banks (constraint table regenerated from the source; Mfi.TagL) -/
theorem standard_instructions_only_on_own_banks : Mfi.TagL.OwnBanks :=
  Mfi.FreeL.standard_instructions_only_on_own_banks

/-! ### no free value at the level of WHOLE instructions (Mfi/Model/World.lean; proofs in Mfi/Lemmas/WorldFree.lean)

`Pre c`: the context's books carry non-negative share values and fee buckets, the account's slots hold non-negative shares,
the bank's configuration is an accepted one (`CfgOk`) and a live bank has a positive deposit share value — the invariant `SInv`
of the world state machine provides all of it for every reachable state (C01 `world_solvency_history`). Values in 2^-96 token;
`b` is the bank's books as the instruction itself accrued them. -/

section whole_instructions
open Mfi.World

/-- **world_deposit_no_free_value**: a whole `lending_account_deposit` (clamped to the capacity or not, on a found or created slot,
    any mint) raises the net value of the position it touches by no more than the tokens that reached the liquidity vault -/
theorem world_deposit_no_free_value {c : Ctx} {amount : Int} {upTo : Bool} {o : Out} (h : World.deposit c amount upTo = .ok o)
    (hp : Pre c) (ha : 0 ≤ amount) :
    ∃ (b : Bank), accrueInterest c.b.books c.b.ir c.now = .ok b ∧
      ((o.tokens = 0 ∧ o.slots = c.a.slots) ∨
       ∃ (slots : List Account.Slot) (i : Nat) (s : Account.Slot) (x' : Balance),
          Account.findOrCreate c.a.slots c.b.key b.assetTag c.now = .ok (slots, i) ∧
          slots[i]? = some s ∧ o.slots = writeSlot c slots i x' ∧
          netValue o.books x' - netValue b (toBal s) ≤ received c.ixEnv o.tokens * ONE * ONE) :=
  deposit_free h hp ha

/-- **world_borrow_no_free_value**: a whole `lending_account_borrow` lowers the position's net value by more than the tokens paid
    out (the origination fee on top), short of them by less than one unit of each share value -/
theorem world_borrow_no_free_value {c : Ctx} {amount : Int} {o : Out} (h : World.borrow c amount = .ok o) (hp : Pre c) (ha : 0 ≤ amount) :
    ∃ (b : Bank) (slots : List Account.Slot) (i : Nat) (s : Account.Slot) (x' : Balance),
      accrueInterest c.b.books c.b.ir c.now = .ok b ∧
      Account.findOrCreate c.a.slots c.b.key b.assetTag c.now = .ok (slots, i) ∧ slots[i]? = some s ∧ o.slots = writeSlot c slots i x' ∧
      o.tokens * ONE * ONE - (b.asv + b.lsv) < netValue b (toBal s) - netValue o.books x' :=
  borrow_free h hp ha

/-- **world_withdraw_no_free_value**: a partial `lending_account_withdraw` lowers the position's net value by more than the tokens
    that leave the vault, short of them by less than one unit of each share value; a complete one pays no more than the exact
    value of the closed deposit (and a completed deleverage pays at most that) -/
theorem world_withdraw_no_free_value {c : Ctx} {amount : Int} {all : Bool} {o : Out} (h : World.withdraw c amount all = .ok o)
    (hp : Pre c) (ha : 0 ≤ amount) :
    ∃ (b : Bank) (i : Nat) (s : Account.Slot) (x' : Balance), accrueInterest c.b.books c.b.ir c.now = .ok b ∧ findSlot c = .ok (i, s) ∧
      o.slots = writeSlot c c.a.slots i x' ∧
      (if all then o.tokens * ONE * ONE ≤ s.a * b.asv ∧ x'.a = 0 ∧ x'.l = 0
       else o.tokens * ONE * ONE - (b.asv + b.lsv) < netValue b (toBal s) - netValue o.books x') :=
  withdraw_free h hp ha

/-- **world_repay_no_free_value**: a partial `lending_account_repay` raises the position's net value by no more than the tokens that
    reached the vault; a complete one charges at least the exact value of the closed debt less one ulp — unless it is the risk
    admin's token-less repayment on a bank flagged for it (the sanctioned write-off of a sunset bank) -/
theorem world_repay_no_free_value {c : Ctx} {amount : Int} {all : Bool} {o : Out} (h : World.repay c amount all = .ok o)
    (hp : Pre c) (ha : 0 ≤ amount) :
    ∃ (b : Bank) (i : Nat) (s : Account.Slot) (x' : Balance), accrueInterest c.b.books c.b.ir c.now = .ok b ∧ findSlot c = .ok (i, s) ∧
      o.slots = writeSlot c c.a.slots i x' ∧
      (if all then x'.a = 0 ∧ x'.l = 0 ∧ (tokenless c true = false → s.l * b.lsv - ONE < received c.ixEnv o.tokens * ONE * ONE)
       else netValue o.books x' - netValue b (toBal s) ≤ received c.ixEnv o.tokens * ONE * ONE) :=
  repay_free h hp ha

/-! ### … in every committed transaction, over every history

The four theorems above need the state the instruction runs on to be sound (`Pre`: share values, fee buckets and position shares
non-negative, a live bank's deposit share value positive). That is part of the invariant `SInv`, which every accepted instruction of
every transaction keeps (`stepIn_sinv`): so from a sound state, every user instruction of every committed transaction — inside a
flash-loan or receivership bracket or not — ran in a context for which the no-free-value bound holds. -/

/-- the context instruction `i` of transaction `tx` ran in: built from the (sound) state the transaction had reached before it -/
def Reached (w : WState) (tx : List TOp) (i ai bi signer : Nat) (vault : Int) (c : Ctx) : Prop :=
  ∃ (wi : WState) (a : AcctV) (b : WBank), w.before tx i = some wi ∧ SInv wi ∧ wi.accts[ai]? = some a ∧ wi.banks[bi]? = some b ∧
    c = wi.ctx a b signer b.v.liquidityVault vault

/-- **world_tx_deposit_no_free_value** -/
theorem world_tx_deposit_no_free_value {w w' : WState} {tx : List TOp} (h : w.runTx tx = some w') (hi : SInv w) (hok : ∀ t ∈ tx, t.Ok)
    {i ai bi signer : Nat} {amount : Int} {upTo : Bool} (hix : tx[i]? = some (.ix (.deposit ai bi signer amount upTo))) :
    ∃ (c : Ctx) (o : Out), Reached w tx i ai bi signer 0 c ∧ World.deposit c amount upTo = .ok o ∧
      ∃ (b : Bank), accrueInterest c.b.books c.b.ir c.now = .ok b ∧
        ((o.tokens = 0 ∧ o.slots = c.a.slots) ∨
         ∃ (slots : List Account.Slot) (i : Nat) (s : Account.Slot) (x' : Balance),
            Account.findOrCreate c.a.slots c.b.key b.assetTag c.now = .ok (slots, i) ∧
            slots[i]? = some s ∧ o.slots = writeSlot c slots i x' ∧
            netValue o.books x' - netValue b (toBal s) ≤ received c.ixEnv o.tokens * ONE * ONE) := by
  obtain ⟨wi, wi', hbef, hsi, hst⟩ := runFrom_at_sinv tx w tx 0 w w' rfl (before_zero w tx) h hi hok i _ (Nat.zero_le _) hix
  have ha0 : 0 ≤ amount := hok _ (List.mem_of_getElem? hix)
  simp only [WState.stepIn, WState.step?] at hst
  split at hst
  · rename_i a b ha hb
    split at hst
    · rename_i o ho
      exact ⟨_, o, ⟨wi, a, b, hbef, hsi, ha, hb, rfl⟩, ho, world_deposit_no_free_value ho (pre_of_inv hsi ha hb signer _ 0) ha0⟩
    · cases hst
  · cases hst

/-- **world_tx_borrow_no_free_value** -/
theorem world_tx_borrow_no_free_value {w w' : WState} {tx : List TOp} (h : w.runTx tx = some w') (hi : SInv w) (hok : ∀ t ∈ tx, t.Ok)
    {i ai bi signer : Nat} {amount : Int} (hix : tx[i]? = some (.ix (.borrow ai bi signer amount))) :
    ∃ (c : Ctx) (o : Out), Reached w tx i ai bi signer 0 c ∧ World.borrow c amount = .ok o ∧
      ∃ (b : Bank) (slots : List Account.Slot) (i : Nat) (s : Account.Slot) (x' : Balance),
        accrueInterest c.b.books c.b.ir c.now = .ok b ∧
        Account.findOrCreate c.a.slots c.b.key b.assetTag c.now = .ok (slots, i) ∧ slots[i]? = some s ∧ o.slots = writeSlot c slots i x' ∧
        o.tokens * ONE * ONE - (b.asv + b.lsv) < netValue b (toBal s) - netValue o.books x' := by
  obtain ⟨wi, wi', hbef, hsi, hst⟩ := runFrom_at_sinv tx w tx 0 w w' rfl (before_zero w tx) h hi hok i _ (Nat.zero_le _) hix
  have ha0 : 0 ≤ amount := hok _ (List.mem_of_getElem? hix)
  simp only [WState.stepIn, WState.step?] at hst
  split at hst
  · rename_i a b ha hb
    split at hst
    · rename_i o ho
      exact ⟨_, o, ⟨wi, a, b, hbef, hsi, ha, hb, rfl⟩, ho, world_borrow_no_free_value ho (pre_of_inv hsi ha hb signer _ 0) ha0⟩
    · cases hst
  · cases hst

/-- **world_tx_withdraw_no_free_value** -/
theorem world_tx_withdraw_no_free_value {w w' : WState} {tx : List TOp} (h : w.runTx tx = some w') (hi : SInv w) (hok : ∀ t ∈ tx, t.Ok)
    {i ai bi signer : Nat} {amount vault : Int} {all : Bool} (hix : tx[i]? = some (.ix (.withdraw ai bi signer amount all vault))) :
    ∃ (c : Ctx) (o : Out), Reached w tx i ai bi signer vault c ∧ World.withdraw c amount all = .ok o ∧
      ∃ (b : Bank) (i : Nat) (s : Account.Slot) (x' : Balance), accrueInterest c.b.books c.b.ir c.now = .ok b ∧ findSlot c = .ok (i, s) ∧
        o.slots = writeSlot c c.a.slots i x' ∧
        (if all then o.tokens * ONE * ONE ≤ s.a * b.asv ∧ x'.a = 0 ∧ x'.l = 0
         else o.tokens * ONE * ONE - (b.asv + b.lsv) < netValue b (toBal s) - netValue o.books x') := by
  obtain ⟨wi, wi', hbef, hsi, hst⟩ := runFrom_at_sinv tx w tx 0 w w' rfl (before_zero w tx) h hi hok i _ (Nat.zero_le _) hix
  have ha0 : 0 ≤ amount := hok _ (List.mem_of_getElem? hix)
  simp only [WState.stepIn, WState.step?] at hst
  split at hst
  · rename_i a b ha hb
    split at hst
    · rename_i o ho
      exact ⟨_, o, ⟨wi, a, b, hbef, hsi, ha, hb, rfl⟩, ho, world_withdraw_no_free_value ho (pre_of_inv hsi ha hb signer _ vault) ha0⟩
    · cases hst
  · cases hst

/-- **world_tx_repay_no_free_value** -/
theorem world_tx_repay_no_free_value {w w' : WState} {tx : List TOp} (h : w.runTx tx = some w') (hi : SInv w) (hok : ∀ t ∈ tx, t.Ok)
    {i ai bi signer : Nat} {amount : Int} {all : Bool} (hix : tx[i]? = some (.ix (.repay ai bi signer amount all))) :
    ∃ (c : Ctx) (o : Out), Reached w tx i ai bi signer 0 c ∧ World.repay c amount all = .ok o ∧
      ∃ (b : Bank) (i : Nat) (s : Account.Slot) (x' : Balance), accrueInterest c.b.books c.b.ir c.now = .ok b ∧ findSlot c = .ok (i, s) ∧
        o.slots = writeSlot c c.a.slots i x' ∧
        (if all then x'.a = 0 ∧ x'.l = 0 ∧ (tokenless c true = false → s.l * b.lsv - ONE < received c.ixEnv o.tokens * ONE * ONE)
         else netValue o.books x' - netValue b (toBal s) ≤ received c.ixEnv o.tokens * ONE * ONE) := by
  obtain ⟨wi, wi', hbef, hsi, hst⟩ := runFrom_at_sinv tx w tx 0 w w' rfl (before_zero w tx) h hi hok i _ (Nat.zero_le _) hix
  have ha0 : 0 ≤ amount := hok _ (List.mem_of_getElem? hix)
  simp only [WState.stepIn, WState.step?] at hst
  split at hst
  · rename_i a b ha hb
    split at hst
    · rename_i o ho
      exact ⟨_, o, ⟨wi, a, b, hbef, hsi, ha, hb, rfl⟩, ho, world_repay_no_free_value ho (pre_of_inv hsi ha hb signer _ 0) ha0⟩
    · cases hst
  · cases hst

end whole_instructions

/-- the premises of the history theorem are satisfiable, and the operations really run -/
example : Good demoBank demoUser := by unfold Mfi.FreeL.Good; decide
example : (applyOp demoBank demoUser 0 (.deposit 7)).isOk = true := by decide
example : (runOps demoBank demoUser [(0, .deposit 7), (0, .withdraw 3), (0, .withdraw 3)]).2.wallet = 999 := by decide

end Mfi.Props.C03
