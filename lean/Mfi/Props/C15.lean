/-
  C15 — Emergency pause is bounded: users always regain access within a fixed time.

  Statements are about the model in Mfi/Model/Panic.lean, whose step functions are diffed
  against the real PanicState / PanicStateCache code by the `panic` correspondence family.
  Time: Solana's clock is non-negative and non-decreasing; a history is a list of
  (seconds elapsed, operation). Timestamps stay ≤ LIM = 2^62, so that the code's `saturating_add`
  / `saturating_sub` and the unchecked i64 subtraction in `can_pause` are exact (hypothesis `hlim`).
-/
import Mfi.Model.Panic
import Mfi.Gen.Constraints

namespace Mfi.Props.C15
open Mfi.Panic Mfi.Gen

def LIM : Int := 4611686018427387904

/-- time until which the protocol is (scheduled to be) paused, seen at time `now` -/
def pausedUntil (s : PanicState) (now : Int) : Int :=
  if s.paused && !isExpired s.paused s.start now then s.start + 1800 else now

/-- numeric invariant on (state, now) -/
def InvS (s : PanicState) (now : Int) : Prop :=
  0 ≤ now ∧ now ≤ LIM ∧ 0 ≤ s.daily ∧ s.daily ≤ 3 ∧ 0 ≤ s.lastReset ∧ s.lastReset ≤ now ∧
  (s.paused = false → s.consecutive = 0 ∧ s.start = 0) ∧
  (s.paused = true → (s.consecutive = 1 ∧ 0 ≤ s.start ∧ s.start ≤ now) ∨
                      (s.consecutive = 2 ∧ 0 ≤ s.start ∧ s.start ≤ now + 1800))

macro "panic_crush" : tactic => `(tactic|
  (simp only [InvS, pausedUntil, unpauseIfExpired, isExpired, canPause, unpause, resetDaily, startOrExtend,
      protocolPaused, propagate, satU8, satI64,
      I64MAX, I64MIN, PAUSE_DURATION_SECONDS, DAILY_RESET_INTERVAL, MAX_CONSECUTIVE_PAUSES, MAX_DAILY_PAUSES, LIM] at *
   <;> grind))

/-! ### one-step lemmas -/

theorem inv_mono (s : PanicState) (t now : Int) (hi : InvS s t) (ht : t ≤ now) (hl : now ≤ LIM) :
    InvS s now := by
  obtain ⟨p, d, c, st, lr⟩ := s
  cases p <;> panic_crush

theorem inv_uie (s : PanicState) (now : Int) (hi : InvS s now) : InvS (unpauseIfExpired s now) now := by
  obtain ⟨p, d, c, st, lr⟩ := s
  cases p <;> panic_crush

theorem inv_reset (s : PanicState) (now : Int) (hi : InvS s now) : InvS (resetDaily s now) now := by
  obtain ⟨p, d, c, st, lr⟩ := s
  cases p <;> panic_crush

theorem inv_start (s : PanicState) (now : Int) (hi : InvS s now)
    (hc : canPause (resetDaily s now) now = true) :
    InvS (startOrExtend (resetDaily s now) now) now := by
  obtain ⟨p, d, c, st, lr⟩ := s
  cases p <;> panic_crush

theorem pause_some {s s' : PanicState} {now : Int} (h : pause s now = some s') :
    canPause (resetDaily (unpauseIfExpired s now) now) now = true ∧
    s' = startOrExtend (resetDaily (unpauseIfExpired s now) now) now := by
  unfold pause at h
  simp only at h
  split at h
  · cases h
  · rename_i hc
    simp at hc
    simp at h
    exact ⟨hc, h.symm⟩

theorem inv_pause (s s' : PanicState) (now : Int) (hi : InvS s now) (h : ixPause s now = some s') :
    InvS s' now := by
  unfold ixPause at h
  obtain ⟨hc, rfl⟩ := pause_some h
  exact inv_start _ _ (inv_uie _ _ (inv_uie _ _ hi)) hc

theorem inv_unpause (s s' : PanicState) (now : Int) (hi : InvS s now) (h : ixUnpause s now = .ok s') :
    InvS s' now ∧ s'.paused = false ∧ s'.consecutive = 0 := by
  obtain ⟨p, d, c, st, lr⟩ := s
  unfold ixUnpause at h
  cases p
  · simp at h
  · simp only [Bool.not_true, Bool.false_eq_true, ↓reduceIte] at h
    injection h with h
    subst h
    panic_crush

theorem inv_punpause (s s' : PanicState) (now : Int) (hi : InvS s now)
    (h : ixUnpausePermissionless s now = .ok s') :
    InvS s' now ∧ s'.paused = false ∧ s'.consecutive = 0 := by
  obtain ⟨p, d, c, st, lr⟩ := s
  unfold ixUnpausePermissionless at h
  cases p
  · simp at h
  · simp only [Bool.not_true, Bool.false_eq_true, ↓reduceIte] at h
    split at h
    · cases h
    · injection h with h
      subst h
      panic_crush

/-! ### Property statements on single steps -/

theorem until_uie (s : PanicState) (now : Int) : pausedUntil (unpauseIfExpired s now) now = pausedUntil s now := by
  obtain ⟨p, d, c, st, lr⟩ := s
  cases p <;> panic_crush

theorem start_extends (s : PanicState) (now : Int) (hi : InvS s now) :
    pausedUntil (startOrExtend (resetDaily s now) now) now ≤ pausedUntil s now + 1800 := by
  obtain ⟨p, d, c, st, lr⟩ := s
  cases p <;> panic_crush

/-- Each successful pause pushes the paused-until time forward by at most 30 minutes. -/
theorem pause_extends_le_30min (s s' : PanicState) (now : Int) (hi : InvS s now)
    (h : ixPause s now = some s') : pausedUntil s' now ≤ pausedUntil s now + 1800 := by
  unfold ixPause at h
  obtain ⟨hc, rfl⟩ := pause_some h
  have := start_extends _ now (inv_uie _ _ (inv_uie _ _ hi))
  rw [until_uie, until_uie] at this
  exact this

/-- In every reachable state, the protocol is never scheduled to stay paused for more than 60
    minutes beyond the present — now or at any later time. -/
theorem inv_le_60min (s : PanicState) (now : Int) (hi : InvS s now) : pausedUntil s now ≤ now + 3600 := by
  obtain ⟨p, d, c, st, lr⟩ := s
  cases p <;> panic_crush

/-- A pause that has run out stops blocking users immediately, whatever the cache's age:
    from `start + 1800` on the group gate is open with no instruction executed. -/
theorem expired_not_blocking (c : Cache) (now : Int) (h : c.start + 1800 ≤ now) :
    protocolPaused c now = false := by
  obtain ⟨p, st, lu⟩ := c
  cases p <;> panic_crush

/-- and conversely the gate only blocks strictly before `start + 1800`. -/
theorem gate_blocks_only_before_expiry (c : Cache) (now : Int) (h : protocolPaused c now = true) :
    c.paused = true ∧ now < c.start + 1800 := by
  obtain ⟨p, st, lu⟩ := c
  cases p <;> panic_crush

/-- Admin unpause succeeds iff a pause flag is set ("unpausing never fails while a pause flag is set"). -/
theorem admin_unpause_total (s : PanicState) (now : Int) :
    (∃ s', ixUnpause s now = .ok s') ↔ s.paused = true := by
  obtain ⟨p, d, c, st, lr⟩ := s
  cases p <;> simp [ixUnpause]

/-- Anyone may clear an expired pause: the permissionless unpause succeeds iff flagged ∧ expired. -/
theorem anyone_unpause_iff (s : PanicState) (now : Int) :
    (∃ s', ixUnpausePermissionless s now = .ok s') ↔
      (s.paused = true ∧ isExpired s.paused s.start now = true) := by
  obtain ⟨p, d, c, st, lr⟩ := s
  cases p
  · simp [ixUnpausePermissionless]
  · by_cases he : isExpired true st now = true <;> simp [ixUnpausePermissionless, he]

/-- a pause at time ≥ start + 1800 (start ≤ now) is expired, so anyone can clear it -/
theorem anyone_can_clear_after_30min (s : PanicState) (now : Int) (hp : s.paused = true)
    (h : s.start + 1800 ≤ now) : ∃ s', ixUnpausePermissionless s now = .ok s' ∧ s'.paused = false := by
  obtain ⟨p, d, c, st, lr⟩ := s
  subst hp
  have he : isExpired true st now = true := by panic_crush
  exact ⟨unpause ⟨true, d, c, st, lr⟩, by simp [ixUnpausePermissionless, he], rfl⟩

/-- what a successful pause does to the daily counter: either the counter was reset (≥ 24 h since the
    previous reset, new reset stamp = now, counter = 1) or it was incremented and the stamp kept. -/
theorem uie_daily (s : PanicState) (now : Int) :
    (unpauseIfExpired s now).daily = s.daily ∧ (unpauseIfExpired s now).lastReset = s.lastReset := by
  obtain ⟨p, d, c, st, lr⟩ := s
  cases p <;> panic_crush

theorem start_daily (s : PanicState) (now : Int) (hi : InvS s now)
    (hc : canPause (resetDaily s now) now = true) :
    let s' := startOrExtend (resetDaily s now) now
    (s'.lastReset = s.lastReset ∧ s'.daily = s.daily + 1 ∧ now - s.lastReset < 86400) ∨
    (s'.lastReset = now ∧ s'.daily = 1 ∧ now - s.lastReset ≥ 86400) := by
  obtain ⟨p, d, c, st, lr⟩ := s
  cases p <;> panic_crush

theorem pause_daily (s s' : PanicState) (now : Int) (hi : InvS s now) (h : ixPause s now = some s') :
    (s'.lastReset = s.lastReset ∧ s'.daily = s.daily + 1 ∧ now - s.lastReset < 86400) ∨
    (s'.lastReset = now ∧ s'.daily = 1 ∧ now - s.lastReset ≥ 86400) := by
  unfold ixPause at h
  obtain ⟨hc, rfl⟩ := pause_some h
  have := start_daily _ now (inv_uie _ _ (inv_uie _ _ hi)) hc
  simp only [(uie_daily _ now).1, (uie_daily _ now).2] at this
  exact this

/-! ### Histories -/

inductive Op | pause | adminUnpause | anyoneUnpause | propagate
  deriving DecidableEq, Repr

/-- The world: fee-state panic state, one group's cache, the clock, and two ghost fields used only
    to state the daily-limit property (successful pauses since the last counter reset; reset times). -/
structure W where
  st : PanicState
  cache : Cache
  now : Int
  ghostPauses : Int
  resets : List Int        -- newest first
  deriving Repr

def init (t0 : Int) : W :=
  { st := ⟨false, 0, 0, 0, 0⟩, cache := ⟨false, 0, 0⟩, now := t0, ghostPauses := 0, resets := [] }

/-- `dt` seconds pass, then `op` is submitted; a failing instruction leaves the state unchanged
    (runtime atomicity). -/
def step (w : W) (x : Nat × Op) : W :=
  let now := w.now + x.1
  match x.2 with
  | .pause =>
    match ixPause w.st now with
    | some s' =>
      if s'.lastReset = w.st.lastReset
      then { w with st := s', now := now, ghostPauses := w.ghostPauses + 1 }
      else { w with st := s', now := now, ghostPauses := 1, resets := s'.lastReset :: w.resets }
    | none => { w with now := now }
  | .adminUnpause =>
    match ixUnpause w.st now with
    | .ok s' => { w with st := s', now := now }
    | .error _ => { w with now := now }
  | .anyoneUnpause =>
    match ixUnpausePermissionless w.st now with
    | .ok s' => { w with st := s', now := now }
    | .error _ => { w with now := now }
  | .propagate => { w with cache := propagate w.st now, now := now }

def run (w : W) (ops : List (Nat × Op)) : W := ops.foldl step w

def total (ops : List (Nat × Op)) : Nat := (ops.map (·.1)).sum

structure Inv (w : W) : Prop where
  s : InvS w.st w.now
  ghost : w.st.daily = w.ghostPauses
  resets_le : ∀ r ∈ w.resets, r ≤ w.st.lastReset
  resets_apart : w.resets.Pairwise (fun a b => a - b ≥ 86400)
  cache_ok : w.cache.paused = true → w.cache.start + 1800 ≤ w.cache.lastUpdate + 3600
  cache_time : w.cache.lastUpdate ≤ w.now

theorem inv_init (t0 : Int) (h0 : 0 ≤ t0) (h1 : t0 ≤ LIM) : Inv (init t0) := by
  constructor <;> simp [init, InvS] <;> omega

theorem inv_step (w : W) (x : Nat × Op) (hi : Inv w) (hlim : w.now + x.1 ≤ LIM) : Inv (step w x) := by
  obtain ⟨dt, op⟩ := x
  obtain ⟨hs, hg, hrl, hra, hc, hct⟩ := hi
  have h0 : 0 ≤ w.now := hs.1
  have hs' : InvS w.st (w.now + dt) := inv_mono _ _ _ hs (by omega) hlim
  cases op
  case pause =>
    simp only [step]
    cases hpz : ixPause w.st (w.now + ↑dt) with
    | none => exact ⟨hs', hg, hrl, hra, hc, by simp only; omega⟩
    | some s' =>
      have hi' := inv_pause _ _ _ hs' hpz
      rcases pause_daily _ _ _ hs' hpz with ⟨h1, h2, _⟩ | ⟨h1, h2, h3⟩
      · simp only [h1, ↓reduceIte]
        exact ⟨hi', by simp only; omega, by simpa [h1] using hrl, hra, hc, by simp only; omega⟩
      · have hne : ¬ s'.lastReset = w.st.lastReset := by omega
        simp only [hne, ↓reduceIte]
        refine ⟨hi', by simp only; omega, ?_, ?_, hc, by simp only; omega⟩
        · intro r hr
          simp only [List.mem_cons] at hr
          rcases hr with rfl | hr
          · exact Int.le_refl _
          · have := hrl r hr; simp only; omega
        · simp only [List.pairwise_cons]
          refine ⟨?_, hra⟩
          intro b hb
          have := hrl b hb
          omega
  case adminUnpause =>
    simp only [step]
    cases hpz : ixUnpause w.st (w.now + ↑dt) with
    | error e => exact ⟨hs', hg, hrl, hra, hc, by simp only; omega⟩
    | ok s' =>
      have hi' := (inv_unpause _ _ _ hs' hpz).1
      have hd : s'.daily = w.st.daily ∧ s'.lastReset = w.st.lastReset := by
        unfold ixUnpause at hpz
        split at hpz
        · cases hpz
        · injection hpz with hpz
          subst hpz
          simp only [unpauseIfExpired, unpause]
          split <;> split <;> simp
      exact ⟨hi', by simp only; omega, by simpa [hd.2] using hrl, hra, hc, by simp only; omega⟩
  case anyoneUnpause =>
    simp only [step]
    cases hpz : ixUnpausePermissionless w.st (w.now + ↑dt) with
    | error e => exact ⟨hs', hg, hrl, hra, hc, by simp only; omega⟩
    | ok s' =>
      have hi' := (inv_punpause _ _ _ hs' hpz).1
      have hd : s'.daily = w.st.daily ∧ s'.lastReset = w.st.lastReset := by
        unfold ixUnpausePermissionless at hpz
        split at hpz
        · cases hpz
        · split at hpz
          · cases hpz
          · injection hpz with hpz
            subst hpz
            simp [unpause]
      exact ⟨hi', by simp only; omega, by simpa [hd.2] using hrl, hra, hc, by simp only; omega⟩
  case propagate =>
    simp only [step]
    refine ⟨hs', hg, hrl, hra, ?_, by simp [propagate]⟩
    intro hp
    have := inv_le_60min _ _ hs'
    revert hp this hs'
    generalize w.st = s
    generalize w.now + ↑dt = now
    obtain ⟨p, d, c, st, lr⟩ := s
    intro hs' hp this
    cases p <;> panic_crush

theorem step_now (w : W) (x : Nat × Op) : (step w x).now = w.now + x.1 := by
  obtain ⟨dt, op⟩ := x
  cases op <;> simp only [step] <;> (repeat' split) <;> rfl

theorem inv_run (ops : List (Nat × Op)) (w : W) (hi : Inv w) (hlim : w.now + total ops ≤ LIM) :
    Inv (run w ops) := by
  induction ops generalizing w with
  | nil => exact hi
  | cons x xs ih =>
    have ht : total (x :: xs) = x.1 + total xs := by simp [total]
    simp only [run, List.foldl_cons]
    apply ih
    · exact inv_step w x hi (by omega)
    · rw [step_now]; omega

/-! ### Property statements over all histories (every strategy of the global fee admin and of
    everybody else, any timing) -/

/-- never scheduled to remain paused for more than 60 minutes beyond the present -/
theorem never_beyond_60min (t0 : Int) (h0 : 0 ≤ t0) (ops : List (Nat × Op)) (hlim : t0 + total ops ≤ LIM) :
    let w := run (init t0) ops
    pausedUntil w.st w.now ≤ w.now + 3600 := by
  have hi := inv_run ops (init t0) (inv_init t0 h0 (by omega)) hlim
  exact inv_le_60min _ _ hi.s

/-- a group's gate (fresh or stale cache) never blocks a user at or after 60 minutes past the
    moment the cache was written -/
theorem gate_never_beyond_60min (t0 : Int) (h0 : 0 ≤ t0) (ops : List (Nat × Op)) (hlim : t0 + total ops ≤ LIM)
    (t : Int) : let w := run (init t0) ops
    protocolPaused w.cache t = true → t < w.cache.lastUpdate + 3600 := by
  intro w hp
  simp only [w] at *
  have hi := inv_run ops (init t0) (inv_init t0 h0 (by omega)) hlim
  have ⟨h1, h2⟩ := gate_blocks_only_before_expiry _ _ hp
  have := hi.cache_ok h1
  omega

/-- at most two consecutive pauses without an unpause in between -/
theorem consecutive_le_2 (t0 : Int) (h0 : 0 ≤ t0) (ops : List (Nat × Op)) (hlim : t0 + total ops ≤ LIM) :
    (run (init t0) ops).st.consecutive ≤ 2 := by
  have hi := inv_run ops (init t0) (inv_init t0 h0 (by omega)) hlim
  have hs := hi.s
  revert hs
  generalize (run (init t0) ops).st = s
  generalize (run (init t0) ops).now = now
  obtain ⟨p, d, c, st, lr⟩ := s
  intro hs
  cases p <;> panic_crush

/-- at most three pauses succeed between two daily counter resets -/
theorem daily_le_3 (t0 : Int) (h0 : 0 ≤ t0) (ops : List (Nat × Op)) (hlim : t0 + total ops ≤ LIM) :
    (run (init t0) ops).ghostPauses ≤ 3 := by
  have hi := inv_run ops (init t0) (inv_init t0 h0 (by omega)) hlim
  have := hi.s.2.2.2.1
  have := hi.ghost
  omega

/-- daily counter resets are at least 24 hours apart -/
theorem resets_24h_apart (t0 : Int) (h0 : 0 ≤ t0) (ops : List (Nat × Op)) (hlim : t0 + total ops ≤ LIM) :
    (run (init t0) ops).resets.Pairwise (fun a b => a - b ≥ 86400) :=
  (inv_run ops (init t0) (inv_init t0 h0 (by omega)) hlim).resets_apart

/-! ### Non-vacuity: concrete histories reaching the interesting states -/

/-- two back-to-back pauses: paused, consecutive = 2, start shifted 30 min into the future -/
example : let w := run (init 1000) [(0, .pause), (400, .pause)]
    w.st.paused = true ∧ w.st.consecutive = 2 ∧ w.st.start = 2800 ∧ pausedUntil w.st w.now = 4600 := by decide
/-- a third immediate pause is refused -/
example : ixPause (run (init 1000) [(0, .pause), (400, .pause)]).st 1500 = none := by decide
/-- after expiry a stale cache no longer gates, and anyone can unpause -/
example : let w := run (init 1000) [(0, .pause), (10, .propagate)]
    protocolPaused w.cache 2799 = true ∧ protocolPaused w.cache 2800 = false := by decide
/-- daily limit reached: fourth pause within the day refused, counter reset path exercised later -/
example : let w := run (init 0) [(0, .pause), (1800, .pause), (1800, .pause)]
    w.ghostPauses = 3 ∧ ixPause w.st 5400 = none ∧ (ixPause w.st 86400).isSome = true := by decide

/-! ### every instruction's pause gate is the expiry-aware one

`protocolPaused` above is `MarginfiGroup::is_protocol_paused()` (flag AND not expired). That a lapsed pause stops blocking "without
anyone acting" needs every gated instruction to ask exactly that function — not the cached flag alone. The account-constraint
table regenerated from the source knows one pause test, `notPaused` (the normalised expression `!G.load()?.is_protocol_paused()`);
any other expression on a group account would be kept as `.other n`. -/

def isNotPaused : Gen.Acc.C → Bool
  | .notPaused _ => true
  | _ => false

/-- **every_pause_gate_is_expiry_aware**: in all 78 account structs, every raw constraint that sits on the group account is the
    `is_protocol_paused()` test — no instruction gates on the cached pause flag, on the stored start time or on anything else -/
theorem every_pause_gate_is_expiry_aware :
    (Gen.Acc.allStructs.all fun s => (Gen.Acc.fields s).all fun f =>
      if f.name = .f_group ∨ f.name = .f_marginfi_group then f.cons.all isNotPaused else true) = true := by decide

end Mfi.Props.C15
