/-
  C14 — Operational-state and global-pause gating of financial instructions.
  Three kinds of theorems: (1) about the model of `validate_bank_state` (diffed exhaustively against
  the real function), (2) by `decide` over the account-constraint table and the handler skeletons that
  the translator REGENERATES from the Rust source on every run, (3) about the pause-cache gate
  (Mfi/Model/Panic.lean, diffed by the `panic` family). Instruction-level behaviour is replayed through
  real dispatch by the C14 monitor (state × instruction and pause-timing × instruction matrices).
-/
import Mfi.Model.Gate
import Mfi.Model.Panic
import Mfi.Lemmas.AccL
import Mfi.Lemmas.SkelL
import Mfi.Props.C15
import Mfi.Lemmas.WorldL
import Mfi.Lemmas.WorldSolvH
import Mfi.Lemmas.WorldTxL

namespace Mfi.Props.C14
open Mfi.Gate Mfi.Gen

/-! ### bank operational state -/

/-- a killed bank accepts nothing, whatever the instruction kind -/
theorem killed_gates (k : Kind) : validateBankState .killedByBankruptcy k = some E.BankKilledByBankruptcy := by
  cases k <;> rfl

/-- deposit/borrow kind: refused when paused or reduce-only, accepted when operational -/
theorem deposit_borrow_kind :
    validateBankState .paused .failsIfPausedOrReduceState = some E.BankPaused ∧
    validateBankState .reduceOnly .failsIfPausedOrReduceState = some E.BankReduceOnly ∧
    validateBankState .operational .failsIfPausedOrReduceState = none := by decide

/-- withdraw/repay/liquidate/bankruptcy kind: refused when paused, still works when reduce-only -/
theorem withdraw_repay_kind :
    validateBankState .paused .failsInPausedState = some E.BankPaused ∧
    validateBankState .reduceOnly .failsInPausedState = none ∧
    validateBankState .operational .failsInPausedState = none := by decide

open Mfi.Gen.Skel in
/-- every handler calls `validate_bank_state` with the kind the property requires, before any
    share-moving call (skeletons regenerated from the source) -/
theorem handlers_use_required_kind :
    occursBefore deposit (· == .bankState .bank .failsIfPausedOrReduceState) isShareMove = true ∧
    occursBefore borrow (· == .bankState .bank .failsIfPausedOrReduceState) isShareMove = true ∧
    occursBefore withdraw (· == .bankState .bank .failsInPausedState) isShareMove = true ∧
    occursBefore repay (· == .bankState .bank .failsInPausedState) isShareMove = true ∧
    occursBefore liquidate (· == .bankState .assetBank .failsInPausedState) isShareMove = true ∧
    occursBefore liquidate (· == .bankState .liabBank .failsInPausedState) isShareMove = true ∧
    occursBefore handle_bankruptcy (· == .bankState .bank .failsInPausedState) isShareMove = true ∧
    occursBefore kamino_deposit (· == .bankState .bank .failsIfPausedOrReduceState) isShareMove = true ∧
    occursBefore drift_deposit (· == .bankState .bank .failsIfPausedOrReduceState) isShareMove = true ∧
    occursBefore solend_deposit (· == .bankState .bank .failsIfPausedOrReduceState) isShareMove = true ∧
    occursBefore kamino_withdraw (· == .bankState .bank .failsInPausedState) isShareMove = true ∧
    occursBefore drift_withdraw (· == .bankState .bank .failsInPausedState) isShareMove = true ∧
    occursBefore solend_withdraw (· == .bankState .bank .failsInPausedState) isShareMove = true := by decide

open Mfi.Gen.Skel in
/-- … and on EVERY path: the bank-state gate sits at conditional depth 0 of each of the thirteen handlers — it is not
    skipped for flagged accounts, special kinds of bank, receivership, or any argument -/
theorem bank_state_gate_unconditional :
    ∀ h ∈ [(deposit, deposit_cond), (borrow, borrow_cond), (withdraw, withdraw_cond), (repay, repay_cond),
           (liquidate, liquidate_cond), (handle_bankruptcy, handle_bankruptcy_cond),
           (kamino_deposit, kamino_deposit_cond), (drift_deposit, drift_deposit_cond), (solend_deposit, solend_deposit_cond),
           (kamino_withdraw, kamino_withdraw_cond), (drift_withdraw, drift_withdraw_cond), (solend_withdraw, solend_withdraw_cond)],
      unconditionally h.1 h.2 isBankState = true := by decide

/-! ### protocol-wide pause -/

open Mfi.Gen.Acc in
/-- the instructions that move funds or change positions (the set F written out) -/
def fundMoving : List S :=
  [.LendingAccountDeposit, .LendingAccountWithdraw, .LendingAccountBorrow, .LendingAccountRepay,
   .LendingAccountLiquidate, .LendingPoolHandleBankruptcy, .LendingAccountCloseBalance,
   .LendingAccountPurgeDelevBalance, .LendingPoolCollectBankFees, .LendingPoolWithdrawFees,
   .LendingPoolWithdrawFeesPermissionless, .LendingPoolWithdrawInsurance,
   .LendingPoolUpdateFeesDestinationAccount, .LendingAccountWithdrawEmissions,
   .LendingAccountWithdrawEmissionsPermissionless, .TransferToNewAccount, .TransferToNewAccountPda,
   .KaminoDeposit, .KaminoWithdraw, .DriftDeposit, .DriftWithdraw, .SolendDeposit, .SolendWithdraw]

open Mfi.Gen.Acc in
/-- **pause_gate_table**: every fund-moving / position-changing instruction carries the
    `!group.is_protocol_paused()` constraint on its group account (table regenerated from the
    `#[derive(Accounts)]` structs on every run; `close_balance` and `purge_deleverage_balance` are in
    the list since `fix: refuse close_balance and purge_deleverage_balance while the protocol pause
    is in force`). -/
theorem pause_gate_table : ∀ s ∈ fundMoving, hasNotPaused s .f_group = true := by decide

open Mfi.Gen.Acc in
/-- every instruction whose handler (skeleton) contains a wrapper operation is in the gated set or is
    one of the bracket instructions that cannot move funds themselves — nothing else changes positions -/
theorem every_struct_with_mut_account_is_classified :
    ∀ s ∈ allStructs, (fields s).any (fun f => f.ty == .loader .marginfiAccount && f.isMut) = true →
      (s ∈ fundMoving ∨ s ∈ [.MarginfiAccountClose, .LendingAccountSettleEmissions,
        .MarginfiAccountUpdateEmissionsDestinationAccount, .LendingAccountStartFlashloan,
        .LendingAccountEndFlashloan, .SetAccountFreeze, .InitLiquidationRecord, .EndLiquidation, .EndDeleverage,
        .StartLiquidation, .StartDeleverage, .PulseHealth]) := by decide

/-- **pause_expiry_no_update**: the group gate is exactly `flag ∧ ¬expired`; from `start + 1800` on it
    is open with no instruction executed, whatever the cache's age (C15.expired_not_blocking). -/
theorem pause_expiry_no_update (c : Mfi.Panic.Cache) (now : Int) (h : c.start + 1800 ≤ now) :
    Mfi.Panic.protocolPaused c now = false := Mfi.Props.C15.expired_not_blocking c now h

/-- while the pause is in force the gate is closed -/
theorem pause_in_force (c : Mfi.Panic.Cache) (now : Int) (hp : c.paused = true) (h0 : c.start ≤ now)
    (h1 : now < c.start + 1800) : Mfi.Panic.protocolPaused c now = true := by
  obtain ⟨p, st, lu⟩ := c
  simp only at hp h0 h1
  subst hp
  simp only [Mfi.Panic.protocolPaused, Mfi.Panic.isExpired, Mfi.Gen.PAUSE_DURATION_SECONDS]
  simp
  omega

section whole_instructions
open Mfi Mfi.World Mfi.Gen Mfi.Gen.Acc

/-! ### whole instructions (Mfi/Model/World.lean) -/

/-- **world_protocol_pause_refuses_first**: while the group is paused each of the five user instructions answers
    `ProtocolPaused` — the pause is the first account check of every one of them (regenerated table), so no other
    circumstance (signer, flags, bank state, amounts) changes the answer, and nothing is executed -/
theorem world_protocol_pause_refuses_first (c : Ctx) (hp : c.g.paused = true) :
    (∀ amt up, World.deposit c amt up = .error (.err E.ProtocolPaused)) ∧
    (∀ amt all, World.withdraw c amt all = .error (.err E.ProtocolPaused)) ∧
    (∀ amt, World.borrow c amt = .error (.err E.ProtocolPaused)) ∧
    (∀ amt all, World.repay c amt all = .error (.err E.ProtocolPaused)) ∧
    World.closeBalance c = .error (.err E.ProtocolPaused) := by
  have h := paused_first c hp
  simp only [List.forall_mem_cons, List.not_mem_nil, false_imp_iff, implies_true, and_true] at h
  obtain ⟨h1, h2, h3, h4, h5⟩ := h
  refine ⟨?_, ?_, ?_, ?_, ?_⟩
  · intro amt up; simp [World.deposit, h1, bind, Except.bind]
  · intro amt all; simp [World.withdraw, h2, bind, Except.bind]
  · intro amt; simp [World.borrow, h3, bind, Except.bind]
  · intro amt all; simp [World.repay, h4, bind, Except.bind]
  · simp [World.closeBalance, h5, bind, Except.bind]

/-- the operational state a successful instruction found the bank in -/
theorem world_bank_state_gates (c : Ctx) :
    (∀ amt up o, World.deposit c amt up = .ok o → Gate.OpState.ofInt c.b.opState = some .operational) ∧
    (∀ amt o, World.borrow c amt = .ok o → Gate.OpState.ofInt c.b.opState = some .operational) ∧
    (∀ amt all o, World.withdraw c amt all = .ok o →
        Gate.OpState.ofInt c.b.opState = some .operational ∨ Gate.OpState.ofInt c.b.opState = some .reduceOnly) ∧
    (∀ amt all o, World.repay c amt all = .ok o →
        Gate.OpState.ofInt c.b.opState = some .operational ∨ Gate.OpState.ofInt c.b.opState = some .reduceOnly) := by
  have strict : ∀ {s : Gate.OpState}, Gate.validateBankState s .failsIfPausedOrReduceState = none → s = .operational := by
    intro s; cases s <;> simp [Gate.validateBankState]
  have lax : ∀ {s : Gate.OpState}, Gate.validateBankState s .failsInPausedState = none → s = .operational ∨ s = .reduceOnly := by
    intro s; cases s <;> simp [Gate.validateBankState]
  refine ⟨?_, ?_, ?_, ?_⟩
  · intro amt up o h
    obtain ⟨s, hs, hv⟩ := bankState_ok (deposit_ok h).state
    rw [hs, strict hv]
  · intro amt o h
    obtain ⟨b, _, _, _, _, _, _, hst, _⟩ := (borrow_ok h).core
    obtain ⟨s, hs, hv⟩ := bankState_ok hst
    rw [hs, strict hv]
  · intro amt all o h
    obtain ⟨s, hs, hv⟩ := bankState_ok (withdraw_ok h).state
    rw [hs]; rcases lax hv with rfl | rfl <;> simp
  · intro amt all o h
    obtain ⟨s, hs, hv⟩ := bankState_ok (repay_ok h).state
    rw [hs]; rcases lax hv with rfl | rfl <;> simp

/-- **world_killed_or_paused_bank_untouched**: a bank that is paused or killed by bankruptcy takes no deposit, withdrawal,
    borrow or repayment; a reduce-only bank takes no deposit and no borrow -/
theorem world_killed_or_paused_bank_untouched (c : Ctx)
    (h : Gate.OpState.ofInt c.b.opState = some .paused ∨ Gate.OpState.ofInt c.b.opState = some .killedByBankruptcy) :
    (∀ amt up, (World.deposit c amt up).isOk = false) ∧ (∀ amt, (World.borrow c amt).isOk = false) ∧
    (∀ amt all, (World.withdraw c amt all).isOk = false) ∧ (∀ amt all, (World.repay c amt all).isOk = false) := by
  obtain ⟨g1, g2, g3, g4⟩ := world_bank_state_gates c
  refine ⟨?_, ?_, ?_, ?_⟩
  · intro amt up
    cases hr : World.deposit c amt up with
    | error e => rfl
    | ok o => have := g1 amt up o hr; rcases h with h | h <;> simp [h] at this
  · intro amt
    cases hr : World.borrow c amt with
    | error e => rfl
    | ok o => have := g2 amt o hr; rcases h with h | h <;> simp [h] at this
  · intro amt all
    cases hr : World.withdraw c amt all with
    | error e => rfl
    | ok o => have := g3 amt all o hr; rcases h with h | h <;> simp [h] at this
  · intro amt all
    cases hr : World.repay c amt all with
    | error e => rfl
    | ok o => have := g4 amt all o hr; rcases h with h | h <;> simp [h] at this

theorem world_reduce_only_bank_takes_no_deposit_or_borrow (c : Ctx) (h : Gate.OpState.ofInt c.b.opState = some .reduceOnly) :
    (∀ amt up, (World.deposit c amt up).isOk = false) ∧ (∀ amt, (World.borrow c amt).isOk = false) := by
  obtain ⟨g1, g2, _, _⟩ := world_bank_state_gates c
  refine ⟨?_, ?_⟩
  · intro amt up
    cases hr : World.deposit c amt up with
    | error e => rfl
    | ok o => have := g1 amt up o hr; simp [h] at this
  · intro amt
    cases hr : World.borrow c amt with
    | error e => rfl
    | ok o => have := g2 amt o hr; simp [h] at this

/-! ### the protocol-wide pause on the world state machine -/

theorem paused_checks (env : Env) (S : Gen.Acc.S) (rest : List (Gen.Acc.Chk × Nat))
    (hs : Gen.Acc.checks S = (.cons .f_group (.notPaused .f_group), 6080) :: rest)
    (hg : ∃ k a, env .f_group = some (.group k a true)) : runChecks env (Gen.Acc.checks S) = .error (.err E.ProtocolPaused) := by
  obtain ⟨k, a, hg⟩ := hg
  rw [hs]
  simp [runChecks, evalChk, hg, E.ProtocolPaused]

/-- **world_paused_machine_is_frozen**: while the protocol-wide pause is in force for the group, NO instruction of the world
    state machine — deposit, withdraw, borrow, repay, balance closure, liquidation, bankruptcy settlement, account transfer, fee
    collection, by anybody, with any arguments — changes any margin account or moves a token of any liquidity vault; the only
    instruction that still runs, the accrual crank, touches no account and moves no token (it brings a bank's books up to date). -/
theorem world_paused_machine_is_frozen (w : WState) (hp : w.g.paused = true) (op : WOp) :
    (w.step op).accts = w.accts ∧ (w.step op).g = w.g ∧ ∀ e ∈ (w.stepE op).2, e.inflow = 0 := by
  have hgrp : ∀ (a : AcctV) (b : WBank) (s v : Nat) (va : Int), ∃ k ad, (w.ctx a b s v va).env .f_group = some (.group k ad true) := by
    intro a b s v va
    exact ⟨w.g.key, w.g.admin, by simp [Ctx.env, WState.ctx, hp]⟩
  cases op with
  | tick dt => exact ⟨rfl, rfl, by simp [WState.stepE]⟩
  | accrue bi =>
    simp only [WState.step, WState.stepE]
    cases hb : w.banks[bi]? with
    | none => simp
    | some b =>
      cases hacc : accrueIx (w.bctx b 0) with
      | error e => simp [hacc]
      | ok books => simp [hacc, WState.commitB]
  | deposit ai bi signer amount upTo =>
    simp only [WState.step, WState.stepE]
    cases ha : w.accts[ai]? with
    | none => simp
    | some a =>
      cases hb : w.banks[bi]? with
      | none => simp
      | some b =>
        have : World.deposit (w.ctx a b signer b.v.liquidityVault 0) amount upTo = .error (.err E.ProtocolPaused) := by
          unfold World.deposit
          rw [paused_checks _ .LendingAccountDeposit _ rfl (hgrp a b signer _ 0)]; rfl
        simp [this]
  | borrow ai bi signer amount =>
    simp only [WState.step, WState.stepE]
    cases ha : w.accts[ai]? with
    | none => simp
    | some a =>
      cases hb : w.banks[bi]? with
      | none => simp
      | some b =>
        have : World.borrow (w.ctx a b signer b.v.liquidityVault 0) amount = .error (.err E.ProtocolPaused) := by
          unfold World.borrow
          rw [paused_checks _ .LendingAccountBorrow _ rfl (hgrp a b signer _ 0)]; rfl
        simp [this]
  | withdraw ai bi signer amount all vault =>
    simp only [WState.step, WState.stepE]
    cases ha : w.accts[ai]? with
    | none => simp
    | some a =>
      cases hb : w.banks[bi]? with
      | none => simp
      | some b =>
        have : World.withdraw (w.ctx a b signer b.v.liquidityVault vault) amount all = .error (.err E.ProtocolPaused) := by
          unfold World.withdraw
          rw [paused_checks _ .LendingAccountWithdraw _ rfl (hgrp a b signer _ vault)]; rfl
        simp [this]
  | repay ai bi signer amount all =>
    simp only [WState.step, WState.stepE]
    cases ha : w.accts[ai]? with
    | none => simp
    | some a =>
      cases hb : w.banks[bi]? with
      | none => simp
      | some b =>
        have : World.repay (w.ctx a b signer b.v.liquidityVault 0) amount all = .error (.err E.ProtocolPaused) := by
          unfold World.repay
          rw [paused_checks _ .LendingAccountRepay _ rfl (hgrp a b signer _ 0)]; rfl
        simp [this]
  | close ai bi signer =>
    simp only [WState.step, WState.stepE]
    cases ha : w.accts[ai]? with
    | none => simp
    | some a =>
      cases hb : w.banks[bi]? with
      | none => simp
      | some b =>
        have : World.closeBalance (w.ctx a b signer b.v.liquidityVault 0) = .error (.err E.ProtocolPaused) := by
          unfold World.closeBalance
          rw [paused_checks _ .LendingAccountCloseBalance _ rfl (hgrp a b signer _ 0)]; rfl
        simp [this]
  | bankruptcy ai bi signer available =>
    simp only [WState.step, WState.stepE]
    cases ha : w.accts[ai]? with
    | none => simp
    | some a =>
      cases hb : w.banks[bi]? with
      | none => simp
      | some b =>
        have : World.bankruptcy (w.ctx a b signer b.v.liquidityVault 0) available = .error (.err E.ProtocolPaused) := by
          unfold World.bankruptcy
          rw [paused_checks _ .LendingPoolHandleBankruptcy _ rfl (hgrp a b signer _ 0)]; rfl
        simp [this]
  | collect bi ok vault =>
    simp only [WState.step, WState.stepE]
    cases hb : w.banks[bi]? with
    | none => simp
    | some b =>
      have : World.collectFeesIx (w.bctx b vault) ok = .error (.err E.ProtocolPaused) := by
        unfold World.collectFeesIx
        rw [paused_checks (w.bctx b vault).env .LendingPoolCollectBankFees _ rfl ⟨w.g.key, w.g.admin, by simp [Ctx.env, WState.bctx, WState.ctx, hp]⟩]; rfl
      simp [this]
  | liquidate qi ei abi lbi signer amount =>
    simp only [WState.step, WState.stepE]
    by_cases hne : qi = ei ∨ abi = lbi
    · simp [hne]
    · simp only [hne, if_false]
      cases hq : w.accts[qi]? with
      | none => simp
      | some lq =>
        cases he : w.accts[ei]? with
        | none => simp
        | some le =>
          cases hab : w.banks[abi]? with
          | none => simp
          | some ab =>
            cases hlb : w.banks[lbi]? with
            | none => simp
            | some lb =>
              have : World.liquidate (w.liqCtx lq le ab lb signer) amount = .error (.err E.ProtocolPaused) := by
                unfold World.liquidate
                rw [paused_checks _ .LendingAccountLiquidate _ rfl ⟨w.g.key, w.g.admin, by simp [LiqCtx.env, WState.liqCtx, hp]⟩]; rfl
              simp [this]
  | transfer ai signer newKey newAuth ok =>
    have hst : w.step (.transfer ai signer newKey newAuth ok) = w := by
      simp only [WState.step]
      split
      · rfl
      · cases ha : w.accts[ai]? with
        | none => rfl
        | some a =>
          have : transferIx w.g a signer newKey newAuth ok = .error (.err E.ProtocolPaused) := by
            unfold transferIx Transfer.transfer
            simp [hp, Transfer.err]
            rfl
          simp [this]
    refine ⟨by rw [hst], by rw [hst], by simp [WState.stepE]⟩

/-! ### … and over transactions: while the pause is in force no transaction changes a position or a group setting -/

theorem map_slots_set {l : List AcctV} {i : Nat} {a a' : AcctV} (ha : l[i]? = some a) (hs : a'.slots = a.slots) :
    (l.set i a').map (·.slots) = l.map (·.slots) := by
  apply List.ext_getElem?
  intro k
  simp only [List.getElem?_map, List.getElem?_set]
  split
  · rename_i hik
    subst hik
    split
    · rw [ha]; simp [hs]
    · rename_i hlt
      rw [List.getElem?_eq_none (by omega)]
  · rfl

/-- one accepted instruction of a transaction under the pause: positions and group untouched -/
theorem paused_stepIn {tx : List TOp} {i : Nat} {t : TOp} {w w' : WState} (hp : w.g.paused = true)
    (h : w.stepIn tx i t = some w') : w'.accts.map (·.slots) = w.accts.map (·.slots) ∧ w'.g = w.g := by
  cases t with
  | ix op =>
    simp only [WState.stepIn] at h
    rw [step?_some h]
    obtain ⟨h1, h2, _⟩ := world_paused_machine_is_frozen w hp op
    exact ⟨by rw [h1], h2⟩
  | startFlash ai signer endIdx =>
    simp only [WState.stepIn] at h
    split at h
    · rename_i a ha
      split at h
      · injection h with h; subst h; exact ⟨map_slots_set ha rfl, rfl⟩
      · cases h
    · cases h
  | endFlash ai signer =>
    simp only [WState.stepIn] at h
    split at h
    · rename_i a ha
      split at h
      · injection h with h; subst h; exact ⟨map_slots_set ha rfl, rfl⟩
      · cases h
    · cases h
  | startLiq ai receiver recordOk =>
    simp only [WState.stepIn] at h
    split at h
    · rename_i a ha
      split at h
      · injection h with h; subst h; exact ⟨map_slots_set ha rfl, rfl⟩
      · cases h
    · cases h
  | endLiq ai signer recordOk walletOk feeMax =>
    simp only [WState.stepIn] at h
    split at h
    · rename_i a ha
      split at h
      · injection h with h; subst h; exact ⟨map_slots_set ha rfl, rfl⟩
      · cases h
    · cases h
  | startDelev ai signer recordOk =>
    simp only [WState.stepIn] at h
    split at h
    · rename_i a ha
      split at h
      · injection h with h; subst h; exact ⟨map_slots_set ha rfl, rfl⟩
      · cases h
    · cases h
  | endDelev ai signer recordOk =>
    simp only [WState.stepIn] at h
    split at h
    · rename_i a ha
      split at h
      · injection h with h; subst h; exact ⟨map_slots_set ha rfl, rfl⟩
      · cases h
    · cases h

theorem paused_runFrom (tx : List TOp) : ∀ (rest : List TOp) (i : Nat) (w w' : WState), w.g.paused = true →
    WState.runFrom tx i rest w = some w' → w'.accts.map (·.slots) = w.accts.map (·.slots) ∧ w'.g = w.g := by
  intro rest
  induction rest with
  | nil => intro i w w' _ h; simp only [WState.runFrom] at h; injection h with h; subst h; exact ⟨rfl, rfl⟩
  | cons op rest ih =>
    intro i w w' hp h
    simp only [WState.runFrom] at h
    split at h
    · rename_i w1 h1
      obtain ⟨a1, g1⟩ := paused_stepIn hp h1
      obtain ⟨a2, g2⟩ := ih (i + 1) w1 w' (by rw [g1]; exact hp) h
      exact ⟨by rw [a2, a1], by rw [g2, g1]⟩
    · cases h

/-- **world_paused_transactions_move_no_position**: while the protocol-wide pause is in force for the group, NO sequence of
    transactions of the world machine — whatever they contain: user instructions, liquidations, settlements, flash-loan and
    receivership brackets, by anybody — changes a single position of any margin account or any group setting (the pause itself
    included: it stays in force until the fee admin's instructions or the clock end it) -/
theorem world_paused_transactions_move_no_position : ∀ (txs : List (List TOp)) (w : WState), w.g.paused = true →
    (w.runTxs txs).accts.map (·.slots) = w.accts.map (·.slots) ∧ (w.runTxs txs).g = w.g := by
  intro txs
  induction txs with
  | nil => intro w _; exact ⟨rfl, rfl⟩
  | cons tx rest ih =>
    intro w hp
    simp only [WState.runTxs]
    cases hr : w.runTx tx with
    | none => simpa using ih w hp
    | some w1 =>
      obtain ⟨a1, g1⟩ := paused_runFrom tx tx 0 w w1 hp hr
      obtain ⟨a2, g2⟩ := ih w1 (by rw [g1]; exact hp)
      simp only [Option.getD_some]
      exact ⟨by rw [a2, a1], by rw [g2, g1]⟩

/-- **world_tx_no_instruction_touches_a_paused_or_killed_bank**: in every COMMITTED transaction of the world machine each deposit,
    borrow, withdrawal and repayment ran on a reached state in which its bank was neither paused nor killed by bankruptcy (and, for
    deposits and borrows, not reduce-only) — brackets suspend health checks, never the operational-state gate -/
theorem world_tx_no_instruction_touches_a_paused_or_killed_bank {w w' : WState} {tx : List TOp} (h : w.runTx tx = some w') (i : Nat) :
    (∀ ai bi signer amount upTo, tx[i]? = some (.ix (.deposit ai bi signer amount upTo)) →
      ∃ (wi : WState) (b : WBank), w.before tx i = some wi ∧ wi.banks[bi]? = some b ∧ Gate.OpState.ofInt b.v.opState = some .operational) ∧
    (∀ ai bi signer amount, tx[i]? = some (.ix (.borrow ai bi signer amount)) →
      ∃ (wi : WState) (b : WBank), w.before tx i = some wi ∧ wi.banks[bi]? = some b ∧ Gate.OpState.ofInt b.v.opState = some .operational) ∧
    (∀ ai bi signer amount all vault, tx[i]? = some (.ix (.withdraw ai bi signer amount all vault)) →
      ∃ (wi : WState) (b : WBank), w.before tx i = some wi ∧ wi.banks[bi]? = some b ∧
        (Gate.OpState.ofInt b.v.opState = some .operational ∨ Gate.OpState.ofInt b.v.opState = some .reduceOnly)) ∧
    (∀ ai bi signer amount all, tx[i]? = some (.ix (.repay ai bi signer amount all)) →
      ∃ (wi : WState) (b : WBank), w.before tx i = some wi ∧ wi.banks[bi]? = some b ∧
        (Gate.OpState.ofInt b.v.opState = some .operational ∨ Gate.OpState.ofInt b.v.opState = some .reduceOnly)) := by
  refine ⟨?_, ?_, ?_, ?_⟩
  · intro ai bi signer amount upTo hi
    obtain ⟨wi, a, b, o, hbef, _, hb, ho⟩ := tx_deposit_ran h hi
    exact ⟨wi, b, hbef, hb, (world_bank_state_gates _).1 amount upTo o ho⟩
  · intro ai bi signer amount hi
    obtain ⟨wi, a, b, o, hbef, _, hb, ho⟩ := tx_borrow_ran h hi
    exact ⟨wi, b, hbef, hb, (world_bank_state_gates _).2.1 amount o ho⟩
  · intro ai bi signer amount all vault hi
    obtain ⟨wi, a, b, o, hbef, _, hb, ho⟩ := tx_withdraw_ran h hi
    exact ⟨wi, b, hbef, hb, (world_bank_state_gates _).2.2.1 amount all o ho⟩
  · intro ai bi signer amount all hi
    obtain ⟨wi, a, b, o, hbef, _, hb, ho⟩ := tx_repay_ran h hi
    exact ⟨wi, b, hbef, hb, (world_bank_state_gates _).2.2.2 amount all o ho⟩

/-- **world_killed_is_forever**: over every history of the world state machine a bank in the KilledByBankruptcy state stays in it
    (no instruction of the machine resets an operational state: `step_bank_frame`), so the refusals of a killed bank
    (`world_killed_or_paused_bank_untouched` and the gates above) are permanent -/
theorem world_killed_is_forever (ops : List WOp) : ∀ (w : WState) (j : Nat) (x : WBank), w.banks[j]? = some x → x.v.opState = 3 →
    ∃ x', (w.run ops).banks[j]? = some x' ∧ x'.v.key = x.v.key ∧ x'.v.opState = 3 := by
  induction ops with
  | nil => intro w j x hx h3; exact ⟨x, hx, rfl, h3⟩
  | cons op rest ih =>
    intro w j x hx h3
    simp only [WState.run, List.foldl_cons]
    obtain ⟨x1, hx1, c1⟩ := step_bank_frame w op j x hx
    have h31 : x1.v.opState = 3 := by
      rcases c1.2.2.2.2.2.2.2.2.2.2 with h | h
      · rw [h, h3]
      · exact h
    obtain ⟨x2, hx2, k2, o2⟩ := ih (w.step op) j x1 hx1 h31
    exact ⟨x2, hx2, by rw [k2, c1.1], o2⟩

end whole_instructions

end Mfi.Props.C14
