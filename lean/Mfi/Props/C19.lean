/-
  C19 — Fees and emissions reach only their destinations, in exactly accrued amounts.

  * fee collection: `collectFees` (Mfi/Model/Bank.lean) is the arithmetic of
    `lending_pool_collect_bank_fees`; the `fees` family runs the REAL instruction through real dispatch
    (SPL, Token-2022 and transfer-fee mints) on generated buckets/liquidity and diffs bucket and vault
    deltas against it.
  * emissions: `claimEmissions` / `settleEmissions` are diffed by the `wrapper` family against the real
    `BankAccountWrapper`.
  * destinations / signers: decided over the tables the translator regenerates from the source
    (Mfi.Gen.Acc account constraints, Mfi.Gen.Skel handler skeletons, Mfi.Gen.Skel.vaultUses).
-/
import Mfi.Model.Bank
import Mfi.Lemmas.FxL
import Mfi.Lemmas.ResL
import Mfi.Lemmas.BankL
import Mfi.Lemmas.SkelL
import Mfi.Lemmas.AccL
import Mfi.Lemmas.ConstL
import Mfi.Props.C08
import Mfi.Lemmas.FreeL
import Mfi.Lemmas.WorldL

namespace Mfi.Props.C19
open Mfi Mfi.Fx Mfi.Bank Mfi.Gen

/-! ### fee collection -/

theorem guard_ok {c : Prop} [Decidable c] (h : (if c then (.ok () : Res Unit) else .error .panic) = .ok ()) : c := by
  split at h
  · assumption
  · cases h

theorem toU64?_some {a n : Int} (h : toU64? a = some n) : n = a / ONE ∧ 0 ≤ n ∧ n ≤ U64MAX := by
  unfold toU64? at h
  simp only at h
  split at h
  · injection h with h; subst h; omega
  · cases h

theorem floor_div (a : Int) : Fx.int a / ONE = a / ONE := by
  unfold Fx.int Fx.floor
  exact Int.mul_ediv_cancel _ (by decide)

/-- **collect_exact**: whenever collection succeeds, every transfer is the whole-token part of
    min(bucket, liquidity still available), buckets fall by exactly what moved (×2^48 bits), and
    the three transfers together never exceed the vault. -/
theorem collect_exact {fI fG fP v : Int} {c : Collected} (h : collectFees fI fG fP v = .ok c) :
    c.toInsurance = min fI (v * ONE) / ONE ∧
    c.toGroup = min fG ((v - c.toInsurance) * ONE) / ONE ∧
    c.toProgram = min fP ((v - c.toInsurance - c.toGroup) * ONE) / ONE ∧
    c.feeI = fI - c.toInsurance * ONE ∧ c.feeG = fG - c.toGroup * ONE ∧ c.feeP = fP - c.toProgram * ONE ∧
    0 ≤ c.toInsurance ∧ 0 ≤ c.toGroup ∧ 0 ≤ c.toProgram ∧
    c.toInsurance + c.toGroup + c.toProgram ≤ v := by
  unfold collectFees at h
  obtain ⟨fI', h1, h⟩ := Res.bind_ok h
  obtain ⟨a1, h2, h⟩ := Res.bind_ok h
  obtain ⟨fG', h3, h⟩ := Res.bind_ok h
  obtain ⟨a2, h4, h⟩ := Res.bind_ok h
  obtain ⟨_, g1, h⟩ := Res.bind_ok h
  obtain ⟨g, h5, h⟩ := Res.bind_ok h
  obtain ⟨i, h6, h⟩ := Res.bind_ok h
  obtain ⟨fP', h7, h⟩ := Res.bind_ok h
  obtain ⟨a3, h8, h⟩ := Res.bind_ok h
  obtain ⟨_, g2, h⟩ := Res.bind_ok h
  obtain ⟨p, h9, h⟩ := Res.bind_ok h
  injection h with h
  subst h
  obtain ⟨e1, _, _⟩ := sub?_some (math_ok h1)
  obtain ⟨e2, _, _⟩ := sub?_some (math_ok h2)
  obtain ⟨e3, _, _⟩ := sub?_some (math_ok h3)
  obtain ⟨e4, _, _⟩ := sub?_some (math_ok h4)
  obtain ⟨e7, _, _⟩ := sub?_some (math_ok h7)
  obtain ⟨e8, _, _⟩ := sub?_some (math_ok h8)
  obtain ⟨e5, g0, _⟩ := toU64?_some (math_ok h5)
  obtain ⟨e6, i0, _⟩ := toU64?_some (math_ok h6)
  obtain ⟨e9, p0, _⟩ := toU64?_some (math_ok h9)
  have ga2 := guard_ok g1
  have ga3 := guard_ok g2
  rw [floor_div] at e5 e6 e9
  have hi : Fx.int (min fI (ofInt v)) = i * ONE := by rw [e6]; rfl
  have hg : Fx.int (min fG a1) = g * ONE := by rw [e5]; rfl
  have hp : Fx.int (min fP a2) = p * ONE := by rw [e9]; rfl
  have ha1 : a1 = (v - i) * ONE := by rw [e2, hi]; unfold ofInt; rw [Int.sub_mul]
  have ha2 : a2 = (v - i - g) * ONE := by rw [e4, hg, ha1, Int.sub_mul (v - i)]
  have ha3 : a3 = (v - i - g - p) * ONE := by rw [e8, hp, ha2, Int.sub_mul (v - i - g)]
  have hv : 0 ≤ v - i - g - p := by
    have : 0 ≤ (v - i - g - p) * ONE := by rw [← ha3]; exact ga3
    exact Int.nonneg_of_mul_nonneg_left this ONE_pos
  refine ⟨?_, ?_, ?_, ?_, ?_, ?_, i0, g0, p0, by dsimp only; omega⟩
  · simp only [e6, ofInt]
  · simp only [e5, ha1]
  · simp only [e9, ha2]
  · simp only [e1, hi]
  · simp only [e3, hg]
  · simp only [e7, hp]

/-- with non-negative buckets and enough liquidity, collection leaves exactly the fractional part
    of each bucket behind (the whole-token part moved). -/
theorem collect_full {fI fG fP v : Int} {c : Collected} (h : collectFees fI fG fP v = .ok c)
    (hI : 0 ≤ fI) (hG : 0 ≤ fG) (hP : 0 ≤ fP) (hv : fI + fG + fP ≤ v * ONE) :
    c.feeI = fI % ONE ∧ c.feeG = fG % ONE ∧ c.feeP = fP % ONE ∧
    c.toInsurance = fI / ONE ∧ c.toGroup = fG / ONE ∧ c.toProgram = fP / ONE := by
  obtain ⟨e1, e2, e3, e4, e5, e6, _, _, _, _⟩ := collect_exact h
  have i1 : c.toInsurance = fI / ONE := by rw [e1, Int.min_eq_left (by omega)]
  have hIle := mulfloor_le fI
  have g1 : c.toGroup = fG / ONE := by
    rw [e2, Int.min_eq_left]
    rw [i1, Int.sub_mul]; omega
  have hGle := mulfloor_le fG
  have p1 : c.toProgram = fP / ONE := by
    rw [e3, Int.min_eq_left]
    rw [i1, g1, Int.sub_mul, Int.sub_mul]; omega
  refine ⟨?_, ?_, ?_, i1, g1, p1⟩
  · rw [e4, i1, Int.emod_def, Int.mul_comm]
  · rw [e5, g1, Int.emod_def, Int.mul_comm]
  · rw [e6, p1, Int.emod_def, Int.mul_comm]

/-- non-negative buckets stay non-negative, and never grow, under collection -/
theorem collect_buckets_nonneg {fI fG fP v : Int} {c : Collected} (h : collectFees fI fG fP v = .ok c)
    (hI : 0 ≤ fI) (hG : 0 ≤ fG) (hP : 0 ≤ fP) :
    0 ≤ c.feeI ∧ c.feeI ≤ fI ∧ 0 ≤ c.feeG ∧ c.feeG ≤ fG ∧ 0 ≤ c.feeP ∧ c.feeP ≤ fP := by
  obtain ⟨e1, e2, e3, e4, e5, e6, i0, g0, p0, _⟩ := collect_exact h
  have hONE := ONE_pos
  have k1 := mulfloor_le (min fI (v * ONE))
  have k2 := mulfloor_le (min fG ((v - c.toInsurance) * ONE))
  have k3 := mulfloor_le (min fP ((v - c.toInsurance - c.toGroup) * ONE))
  rw [← e1] at k1; rw [← e2] at k2; rw [← e3] at k3
  have m1 := Int.min_le_left fI (v * ONE)
  have m2 := Int.min_le_left fG ((v - c.toInsurance) * ONE)
  have m3 := Int.min_le_left fP ((v - c.toInsurance - c.toGroup) * ONE)
  have q1 : 0 ≤ c.toInsurance * ONE := Int.mul_nonneg i0 (by omega)
  have q2 : 0 ≤ c.toGroup * ONE := Int.mul_nonneg g0 (by omega)
  have q3 : 0 ≤ c.toProgram * ONE := Int.mul_nonneg p0 (by omega)
  omega

example : collectFees (5 * ONE + 7) (2 * ONE + 1) (ONE / 2) 6 =
    .ok { feeI := 7, feeG := ONE + 1, feeP := ONE / 2, toInsurance := 5, toGroup := 1, toProgram := 0 } := by decide


/-! ### emissions: amount -/

def YEAR : Int := 31536000

theorem SPY_eq : SECONDS_PER_YEAR = YEAR * ONE := by decide

/-- **calc_closed_form**: `calc_emissions(period = T s, amount, decimals d, rate = R)` is exactly
    `R · ⌊T · ⌊amount/10^d⌋₄₈ / YEAR⌋` (⌊·⌋₄₈ = truncation to 48 fractional bits). -/
theorem calc_closed_form {T amount d R e em : Int} (he : exp10 d = some e) (hpos : 0 < e)
    (hT : 0 ≤ T) (ha : 0 ≤ amount)
    (h : calcEmissions (ofInt T) amount d (ofInt R) = .ok em) :
    em = T * (amount * ONE / e) / YEAR * R := by
  unfold calcEmissions at h
  rw [he] at h
  obtain ⟨e1, h0, h⟩ := Res.bind_ok h
  injection h0 with h0; subst h0
  obtain ⟨ui, h1, h⟩ := Res.bind_ok h
  obtain ⟨a, h2, h⟩ := Res.bind_ok h
  obtain ⟨b, h3, h⟩ := Res.bind_ok h
  obtain ⟨_, eui, _, _⟩ := div?_some (math_ok h1)
  obtain ⟨ea, _, _⟩ := mul?_some (math_ok h2)
  obtain ⟨_, eb, _, _⟩ := div?_some (math_ok h3)
  obtain ⟨er, _, _⟩ := mul?_some (math_ok h)
  have hONE := ONE_pos
  rw [tdiv_nonneg (Int.mul_nonneg ha (by omega))] at eui
  have hui : 0 ≤ ui := by rw [eui]; exact Int.ediv_nonneg (Int.mul_nonneg ha (by omega)) (by omega)
  have ea' : a = T * ui := by
    rw [ea]; unfold ofInt
    rw [Int.mul_assoc, Int.mul_comm ONE ui, ← Int.mul_assoc]
    exact Int.mul_ediv_cancel _ (by omega)
  have ha0 : 0 ≤ a := by rw [ea']; exact Int.mul_nonneg hT hui
  rw [tdiv_nonneg (Int.mul_nonneg ha0 (by omega)), SPY_eq] at eb
  have eb' : b = a / YEAR := by
    rw [eb]; exact Int.mul_ediv_mul_of_pos_left _ _ hONE
  rw [er]; unfold ofInt
  rw [← Int.mul_assoc]
  rw [Int.mul_ediv_cancel _ (by omega), eb', ea', eui]

/-- rewards are never negative and never more than the exact proportional amount
    `R · T · (amount/10^d) / YEAR` (every rounding is downwards) -/
theorem calc_le_proportional {T amount d R e em : Int} (he : exp10 d = some e) (hpos : 0 < e)
    (hT : 0 ≤ T) (ha : 0 ≤ amount) (hR : 0 ≤ R)
    (h : calcEmissions (ofInt T) amount d (ofInt R) = .ok em) :
    0 ≤ em ∧ em * (YEAR * e) ≤ R * T * amount * ONE := by
  have hc := calc_closed_form he hpos hT ha h
  have hONE := ONE_pos
  have hY : (0 : Int) < YEAR := by decide
  set ui := amount * ONE / e with hui
  have hui0 : 0 ≤ ui := Int.ediv_nonneg (Int.mul_nonneg ha (by omega)) (by omega)
  have h1 : ui * e ≤ amount * ONE := Int.ediv_mul_le _ (by omega)
  have h2 : T * ui / YEAR * YEAR ≤ T * ui := Int.ediv_mul_le _ (by omega)
  have hb0 : 0 ≤ T * ui / YEAR := Int.ediv_nonneg (Int.mul_nonneg hT hui0) (by omega)
  refine ⟨by rw [hc]; exact Int.mul_nonneg hb0 hR, ?_⟩
  rw [hc]
  calc T * ui / YEAR * R * (YEAR * e) = R * (T * ui / YEAR * YEAR) * e := by
        simp only [Int.mul_comm, Int.mul_left_comm, Int.mul_assoc]
    _ ≤ R * (T * ui) * e := Int.mul_le_mul_of_nonneg_right (Int.mul_le_mul_of_nonneg_left h2 hR) (by omega)
    _ = R * T * (ui * e) := by simp only [Int.mul_comm, Int.mul_left_comm, Int.mul_assoc]
    _ ≤ R * T * (amount * ONE) := Int.mul_le_mul_of_nonneg_left h1 (Int.mul_nonneg hR hT)
    _ = R * T * amount * ONE := by simp only [Int.mul_assoc]

/-- monotone in elapsed time, position size and rate -/
theorem calc_monotone {T T' amount amount' d R R' e em em' : Int} (he : exp10 d = some e) (hpos : 0 < e)
    (hT : 0 ≤ T) (ha : 0 ≤ amount) (hR : 0 ≤ R) (hTT : T ≤ T') (haa : amount ≤ amount') (hRR : R ≤ R')
    (h : calcEmissions (ofInt T) amount d (ofInt R) = .ok em)
    (h' : calcEmissions (ofInt T') amount' d (ofInt R') = .ok em') : em ≤ em' := by
  rw [calc_closed_form he hpos hT ha h, calc_closed_form he hpos (by omega) (by omega) h']
  have hONE := ONE_pos
  have hY : (0 : Int) < YEAR := by decide
  have u1 : amount * ONE / e ≤ amount' * ONE / e :=
    Int.ediv_le_ediv hpos (Int.mul_le_mul_of_nonneg_right haa (by omega))
  have u0 : 0 ≤ amount * ONE / e := Int.ediv_nonneg (Int.mul_nonneg ha (by omega)) (by omega)
  have t1 : T * (amount * ONE / e) ≤ T' * (amount' * ONE / e) := Int.mul_le_mul hTT u1 u0 (by omega)
  have b1 : T * (amount * ONE / e) / YEAR ≤ T' * (amount' * ONE / e) / YEAR := Int.ediv_le_ediv hY t1
  have b0 : 0 ≤ T * (amount * ONE / e) / YEAR := Int.ediv_nonneg (Int.mul_nonneg hT u0) (by omega)
  exact Int.mul_le_mul b1 hRR hR (by omega)

/-- nothing accrues over zero time, on an empty position, or at rate zero -/
theorem calc_zero {T amount d R e em : Int} (he : exp10 d = some e) (hpos : 0 < e)
    (hT : 0 ≤ T) (ha : 0 ≤ amount) (hz : T = 0 ∨ amount = 0 ∨ R = 0)
    (h : calcEmissions (ofInt T) amount d (ofInt R) = .ok em) : em = 0 := by
  rw [calc_closed_form he hpos hT ha h]
  rcases hz with h | h | h <;> subst h <;> simp


/-! ### emissions: crediting and paying out -/

theorem exp10_pos {d e : Int} (h : exp10 d = some e) : 0 < e := by
  unfold exp10 at h
  split at h
  · have : ∀ x ∈ POW10FX, 0 < x := by decide
    exact this e (List.mem_of_getElem? h)
  · cases h

theorem amount_nonneg {s v a : Int} (hs : 0 ≤ s) (hv : 0 ≤ v) (h : math (mul? s v) = .ok a) : 0 ≤ a := by
  obtain ⟨e, _, _⟩ := mul?_some (math_ok h)
  rw [e]; exact Int.ediv_nonneg (Int.mul_nonneg hs hv) (by decide)

/-- what `claim_emissions` does, as one statement: some `credit` moves from the bank's
    `emissions_remaining` to the position's `emissions_outstanding`, nothing else changes, and
    the credit is `min(calc_emissions(..), remaining)` (or nothing when the side is not rewarded). -/
structure ClaimSpec (b : Bank) (x : Balance) (now : Int) (b' : Bank) (x' : Balance) : Prop where
  ex : ∃ credit : Int,
    b' = { b with emissionsRemaining := b.emissionsRemaining - credit } ∧
    x' = { x with emis := x.emis + credit, lastUpdate := now } ∧
    (credit = 0 ∨ ∃ amount lu em,
      emissionsBase b x = .ok (some amount) ∧
      lu = (if x.lastUpdate < MIN_EMISSIONS_START_TIME then now else x.lastUpdate) ∧ 0 ≤ now - lu ∧
      calcEmissions (ofInt (now - lu)) amount (balanceDecimals b) (ofInt b.emissionsRate) = .ok em ∧
      credit = min em b.emissionsRemaining)

theorem claim_spec {b b' : Bank} {x x' : Balance} {now : Int} (h : claimEmissions b x now = .ok (b', x')) :
    ClaimSpec b x now b' x' := by
  unfold claimEmissions at h
  obtain ⟨amt, hbase, h⟩ := Res.bind_ok h
  cases amt with
  | none =>
    injection h with h
    injection h with h1 h2
    exact ⟨0, by rw [← h1]; simp, by rw [← h2]; simp, Or.inl rfl⟩
  | some amount =>
    unfold creditEmissions at h
    dsimp only at h
    generalize hlu : (if x.lastUpdate < MIN_EMISSIONS_START_TIME then now else x.lastUpdate) = lu at h
    by_cases hneg : now - lu < 0
    · simp only [hneg, ↓reduceIte, merr] at h
      cases h
    · simp only [hneg, ↓reduceIte] at h
      obtain ⟨em, hem, h⟩ := Res.bind_ok h
      obtain ⟨e', he', h⟩ := Res.bind_ok h
      obtain ⟨r', hr', h⟩ := Res.bind_ok h
      injection h with h
      injection h with h1 h2
      obtain ⟨ee, _, _⟩ := add?_some (math_ok he')
      obtain ⟨er, _, _⟩ := sub?_some (math_ok hr')
      refine ⟨min em b.emissionsRemaining, by rw [← h1, er], by rw [← h2, ee], Or.inr ⟨amount, lu, em, hbase, hlu.symm, by omega, hem, rfl⟩⟩

theorem base_nonneg {b : Bank} {x : Balance} {amount : Int} (h : emissionsBase b x = .ok (some amount))
    (hav : 0 ≤ b.asv) (hlv : 0 ≤ b.lsv) (ha : 0 ≤ x.a) (hl : 0 ≤ x.l) : 0 ≤ amount := by
  unfold emissionsBase at h
  obtain ⟨side, _, h⟩ := Res.bind_ok h
  dsimp only at h
  split at h
  · unfold assetAmount at h
    cases hm : math (mul? x.a b.asv) with
    | error e => rw [hm] at h; cases h
    | ok v => rw [hm] at h; injection h with h; injection h with h; subst h; exact amount_nonneg ha hav hm
  · unfold liabAmount at h
    cases hm : math (mul? x.l b.lsv) with
    | error e => rw [hm] at h; cases h
    | ok v => rw [hm] at h; injection h with h; injection h with h; subst h; exact amount_nonneg hl hlv hm
  · cases h

/-- **claim_capped**: a claim credits a non-negative amount that never exceeds the funded remainder,
    which therefore stays non-negative; pool + position is conserved exactly. -/
theorem claim_capped {b b' : Bank} {x x' : Balance} {now : Int} (h : claimEmissions b x now = .ok (b', x'))
    (hr : 0 ≤ b.emissionsRemaining) (hrate : 0 ≤ b.emissionsRate)
    (hav : 0 ≤ b.asv) (hlv : 0 ≤ b.lsv) (ha : 0 ≤ x.a) (hl : 0 ≤ x.l) :
    0 ≤ b'.emissionsRemaining ∧ b'.emissionsRemaining ≤ b.emissionsRemaining ∧ x.emis ≤ x'.emis ∧
    b'.emissionsRemaining + x'.emis = b.emissionsRemaining + x.emis := by
  obtain ⟨credit, hb, hx, hc⟩ := (claim_spec h).ex
  have hcr : 0 ≤ credit ∧ credit ≤ b.emissionsRemaining := by
    rcases hc with hc | ⟨amount, lu, em, hbase, _, hdt, hem, hc⟩
    · omega
    · have ha0 := base_nonneg hbase hav hlv ha hl
      cases hexp : exp10 (balanceDecimals b) with
      | none =>
        unfold calcEmissions at hem
        rw [hexp] at hem
        cases hem
      | some e =>
        have := (calc_le_proportional hexp (exp10_pos hexp) hdt ha0 hrate hem).1
        rw [hc]
        exact ⟨Int.le_min.mpr ⟨this, hr⟩, Int.min_le_right _ _⟩
  rw [hb, hx]
  dsimp only
  omega

/-- `settle_emissions_and_get_transfer_amount`: pays out exactly the whole-token part of what the
    position has accrued; pool + position + payout is conserved. -/
theorem settle_exact {b0 b : Bank} {x0 x : Balance} {now amt : Int}
    (h : settleEmissions b0 x0 now = .ok (b, x, amt)) :
    ∃ b1 x1, claimEmissions b0 x0 now = .ok (b1, x1) ∧ b = b1 ∧
      amt = x1.emis / ONE ∧ 0 ≤ amt ∧ x.emis = x1.emis % ONE ∧
      b.emissionsRemaining + x.emis + amt * ONE = b1.emissionsRemaining + x1.emis ∧
      x = { x1 with emis := x.emis } := by
  unfold settleEmissions at h
  obtain ⟨⟨b1, x1⟩, hc, h⟩ := Res.bind_ok h
  dsimp only at h
  obtain ⟨rest, hrest, h⟩ := Res.bind_ok h
  obtain ⟨a, ha, h⟩ := Res.bind_ok h
  injection h with h
  injection h with h1 h2
  injection h2 with h2 h3
  obtain ⟨er, _, _⟩ := sub?_some (math_ok hrest)
  obtain ⟨ea, a0, _⟩ := toU64?_some (math_ok ha)
  have hfl : Fx.floor x1.emis / ONE = x1.emis / ONE := floor_div x1.emis
  refine ⟨b1, x1, hc, h1.symm, ?_, ?_, ?_, ?_, ?_⟩
  · rw [← h3, ea, hfl]
  · rw [← h3]; exact a0
  · rw [← h2]; dsimp only; rw [er]; unfold Fx.floor; rw [Int.emod_def, Int.mul_comm]
  · rw [← h2, ← h1, ← h3, ea, hfl]; dsimp only; rw [er]; unfold Fx.floor; omega
  · rw [← h2]


/-! ### emissions over whole histories: one bank, any number of positions -/

/-- an emissions campaign: the bank, every position in it, tokens paid out so far, tokens funded so far -/
structure Sys where
  bank : Bank
  pos : List Balance
  paid : Int      -- whole tokens that left the emissions vault
  funded : Int    -- I80F48 bits ever added to `emissions_remaining`

inductive Op
  | claim (i : Nat) (now : Int)                 -- settle_emissions / any wrapper op's claim
  | withdraw (i : Nat) (now : Int)              -- withdraw_emissions(_permissionless)
  | fund (tokens : Int) (rate : Int) (flags : Nat)  -- setup / update emissions parameters
  | activity (i : Nat) (a l asv lsv : Int)      -- user activity / accrual changing shares and share values
  | open_ (x : Balance)                         -- a new position

def sumEmis : List Balance → Int
  | [] => 0
  | x :: xs => x.emis + sumEmis xs

def step (s : Sys) : Op → Sys
  | .claim i now =>
    match s.pos[i]? with
    | none => s
    | some x =>
      match claimEmissions s.bank x now with
      | .ok (b', x') => { s with bank := b', pos := s.pos.set i x' }
      | .error _ => s
  | .withdraw i now =>
    match s.pos[i]? with
    | none => s
    | some x =>
      match settleEmissions s.bank x now with
      | .ok (b', x', amt) => { s with bank := b', pos := s.pos.set i x', paid := s.paid + amt }
      | .error _ => s
  | .fund tokens rate flags =>
    if 0 ≤ tokens ∧ 0 ≤ rate then
      { s with bank := { s.bank with emissionsRemaining := s.bank.emissionsRemaining + tokens * ONE,
                                      emissionsRate := rate, flags := flags },
               funded := s.funded + tokens * ONE }
    else s
  | .activity i a l asv lsv =>
    match s.pos[i]? with
    | none => s
    | some x =>
      if 0 ≤ a ∧ 0 ≤ l ∧ 0 ≤ asv ∧ 0 ≤ lsv then
        { s with bank := { s.bank with asv := asv, lsv := lsv }, pos := s.pos.set i { x with a := a, l := l } }
      else s
  | .open_ x => if 0 ≤ x.a ∧ 0 ≤ x.l ∧ x.emis = 0 then { s with pos := s.pos ++ [x] } else s

def PosOk (x : Balance) : Prop := 0 ≤ x.a ∧ 0 ≤ x.l ∧ 0 ≤ x.emis

structure Inv (s : Sys) : Prop where
  rem : 0 ≤ s.bank.emissionsRemaining
  rate : 0 ≤ s.bank.emissionsRate
  asv : 0 ≤ s.bank.asv
  lsv : 0 ≤ s.bank.lsv
  pos : ∀ x ∈ s.pos, PosOk x
  conserve : s.bank.emissionsRemaining + sumEmis s.pos + s.paid * ONE = s.funded
  paid : 0 ≤ s.paid

theorem sumEmis_set {l : List Balance} {i : Nat} {x y : Balance} (h : l[i]? = some x) :
    sumEmis (l.set i y) = sumEmis l - x.emis + y.emis := by
  induction l generalizing i with
  | nil => simp at h
  | cons a as ih =>
    cases i with
    | zero =>
      simp only [List.getElem?_cons_zero, Option.some.injEq] at h
      subst h
      simp only [List.set_cons_zero, sumEmis]; omega
    | succ j =>
      simp only [List.getElem?_cons_succ] at h
      simp only [List.set_cons_succ, sumEmis, ih h]; omega

theorem sumEmis_append (l : List Balance) (x : Balance) : sumEmis (l ++ [x]) = sumEmis l + x.emis := by
  induction l with
  | nil => simp [sumEmis]
  | cons a as ih => simp only [List.cons_append, sumEmis, ih]; omega

theorem sumEmis_nonneg {l : List Balance} (h : ∀ x ∈ l, PosOk x) : 0 ≤ sumEmis l := by
  induction l with
  | nil => simp [sumEmis]
  | cons a as ih =>
    have h1 := (h a (by simp)).2.2
    have h2 := ih (fun x hx => h x (by simp [hx]))
    simp only [sumEmis]; omega

theorem mem_set_cases {l : List Balance} {i : Nat} {y z : Balance} (h : z ∈ l.set i y) : z = y ∨ z ∈ l := by
  rcases List.mem_or_eq_of_mem_set h with h | h
  · exact Or.inr h
  · exact Or.inl h

theorem inv_step {s : Sys} (h : Inv s) (op : Op) : Inv (step s op) := by
  cases op with
  | claim i now =>
    simp only [step]
    split
    · exact h
    · rename_i x hx
      split
      · rename_i b' x' hc
        have hmem : x ∈ s.pos := List.mem_of_getElem? hx
        obtain ⟨pa, pl, pe⟩ := h.pos x hmem
        obtain ⟨c1, c2, c3, c4⟩ := claim_capped hc h.rem h.rate h.asv h.lsv pa pl
        obtain ⟨⟨r, hb⟩, ⟨e, hx'⟩⟩ := claim_frame hc
        refine ⟨c1, by rw [hb]; exact h.rate, by rw [hb]; exact h.asv, by rw [hb]; exact h.lsv, ?_, ?_, h.paid⟩
        · intro z hz
          rcases mem_set_cases hz with hz | hz
          · have e0 : 0 ≤ x'.emis := by omega
            subst hz
            exact ⟨by rw [hx']; exact pa, by rw [hx']; exact pl, e0⟩
          · exact h.pos z hz
        · have := h.conserve
          simp only [sumEmis_set hx]; omega
      · exact h
  | withdraw i now =>
    simp only [step]
    split
    · exact h
    · rename_i x hx
      split
      · rename_i b' x' amt hs
        have hmem : x ∈ s.pos := List.mem_of_getElem? hx
        obtain ⟨pa, pl, pe⟩ := h.pos x hmem
        obtain ⟨b1, x1, hc, hb, hamt, a0, hfrac, hcons, hfr⟩ := settle_exact hs
        subst hb
        obtain ⟨c1, c2, c3, c4⟩ := claim_capped hc h.rem h.rate h.asv h.lsv pa pl
        obtain ⟨⟨r, hb1⟩, ⟨e, hx1⟩⟩ := claim_frame hc
        have hx'frame : x'.a = x.a ∧ x'.l = x.l := by
          rw [hfr, hx1]; exact ⟨rfl, rfl⟩
        have hfrac0 : 0 ≤ x'.emis := by rw [hfrac]; exact Int.emod_nonneg _ (by decide)
        refine ⟨c1, by rw [hb1]; exact h.rate, by rw [hb1]; exact h.asv,
          by rw [hb1]; exact h.lsv, ?_, ?_, by simp only; have := h.paid; omega⟩
        · intro z hz
          rcases mem_set_cases hz with hz | hz
          · subst hz; exact ⟨by rw [hx'frame.1]; exact pa, by rw [hx'frame.2]; exact pl, hfrac0⟩
          · exact h.pos z hz
        · have := h.conserve
          simp only [sumEmis_set hx, Int.add_mul]
          omega
      · exact h
  | fund tokens rate flags =>
    simp only [step]
    split
    · rename_i hg
      have hONE := ONE_pos
      have : 0 ≤ tokens * ONE := Int.mul_nonneg hg.1 (by omega)
      refine ⟨by simp only; have := h.rem; omega, hg.2, h.asv, h.lsv, h.pos, ?_, h.paid⟩
      have := h.conserve
      simp only; omega
    · exact h
  | activity i a l asv lsv =>
    simp only [step]
    split
    · exact h
    · rename_i x hx
      split
      · rename_i hg
        have hmem : x ∈ s.pos := List.mem_of_getElem? hx
        refine ⟨h.rem, h.rate, hg.2.2.1, hg.2.2.2, ?_, ?_, h.paid⟩
        · intro z hz
          rcases mem_set_cases hz with hz | hz
          · subst hz; exact ⟨hg.1, hg.2.1, (h.pos x hmem).2.2⟩
          · exact h.pos z hz
        · have := h.conserve
          simp only [sumEmis_set hx]; omega
      · exact h
  | open_ x =>
    simp only [step]
    split
    · rename_i hg
      refine ⟨h.rem, h.rate, h.asv, h.lsv, ?_, ?_, h.paid⟩
      · intro z hz
        rcases List.mem_append.mp hz with hz | hz
        · exact h.pos z hz
        · simp only [List.mem_singleton] at hz; subst hz; exact ⟨hg.1, hg.2.1, by omega⟩
      · have := h.conserve
        simp only [sumEmis_append]; omega
    · exact h

/-- **emissions_never_exceed_funding**: over every history of claims, withdrawals, re-funding,
    user activity and new positions (any number of positions, any times, rates and sizes), the
    tokens paid out plus everything credited but unpaid plus the remaining pool equal exactly
    what was funded; so payouts (and credits) never exceed the funded amount. -/
theorem emissions_never_exceed_funding (s : Sys) (ops : List Op) (h : Inv s) :
    Inv (ops.foldl step s) ∧
    (ops.foldl step s).paid * ONE + sumEmis (ops.foldl step s).pos ≤ (ops.foldl step s).funded := by
  have hinv : Inv (ops.foldl step s) := by
    induction ops generalizing s with
    | nil => exact h
    | cons op ops ih => exact ih _ (inv_step h op)
  refine ⟨hinv, ?_⟩
  have := hinv.conserve
  have := hinv.rem
  omega

def exBank : Bank :=
  { asv := ONE, lsv := ONE, sa := 0, sl := 0, feeI := 0, feeG := 0, feeP := 0, depositLimit := 0,
    borrowLimit := 0, flags := 0, assetTag := 0, mintDecimals := 6, emissionsRate := 0,
    emissionsRemaining := 0, lendCnt := 0, borrowCnt := 0, lastUpdate := 0, cacheAccum := 0, cacheFor := 0 }

/-- the invariant's premises are met by a fresh bank with no positions -/
example : Inv { bank := exBank, pos := [], paid := 0, funded := 0 } :=
  ⟨by decide, by decide, by decide, by decide, by simp, by decide, by decide⟩


/-! ### who can move vault funds, and where to (tables regenerated from the source on every run) -/

/-- **closing_pays_out_first**: a position can be closed (complete withdrawal, complete repayment, balance closure: all three go
    through `Balance::close(check_emissions = true)`) only while LESS than one whole emission token is unclaimed — strictly: with
    exactly one token outstanding the closure is refused, so no reward that could be paid is ever dropped by closing. -/
theorem closing_pays_out_first {bal bal' : Balance} (h : closeBalance bal true = .ok bal') : bal.emis < ONE ∧ bal' = emptyDeactivated := by
  unfold closeBalance at h
  split at h
  · cases h
  · rename_i hc
    injection h with h
    simp only [Bool.true_and, Bool.not_eq_true', decide_eq_false_iff_not, not_not] at hc
    exact ⟨hc, h.symm⟩

/-- (the boundary itself) exactly one token outstanding is refused, one ulp less is accepted -/
example : closeBalance { active := true, tag := 0, a := 0, l := 0, emis := ONE, lastUpdate := 0 } true = .error (.err E.CannotCloseOutstandingEmissions) := by decide
example : (closeBalance { active := true, tag := 0, a := 0, l := 0, emis := ONE - 1, lastUpdate := 0 } true).isOk = true := by decide

section tables
open Mfi.Gen.Skel Mfi.Gen.Acc

/-- the insurance-vault authority signs only in bankruptcy cover and the admin's insurance withdrawal -/
theorem insurance_vault_signers : ∀ p ∈ vaultUses, p.2 = Vault.insurance →
    p.1 = .fn_lending_pool_handle_bankruptcy ∨ p.1 = .fn_lending_pool_withdraw_insurance := by decide

/-- the fee-vault authority signs only in the two fee withdrawals -/
theorem fee_vault_signers : ∀ p ∈ vaultUses, p.2 = Vault.fee →
    p.1 = .fn_lending_pool_withdraw_fees ∨ p.1 = .fn_lending_pool_withdraw_fees_permissionless := by decide

/-- fee collection checks the fee ATA first, then makes exactly three transfers out of the
    liquidity vault, each signed by the liquidity-vault authority and by no other vault authority -/
theorem collect_shape :
    collect_bank_fees.head? = some .feeAtaCheck ∧
    (collect_bank_fees.filter (· == .transferOut)).length = 3 ∧
    (∀ e ∈ collect_bank_fees, isSigner .insurance e = false ∧ isSigner .fee e = false ∧ isSigner .unknown e = false) ∧
    withdraw_fees = [.transferOut, .signer .fee] ∧
    withdraw_fees_permissionless = [.transferOut, .signer .fee] ∧
    withdraw_insurance = [.transferOut, .signer .insurance] := by decide

/-- the collection accounts are all bound to the bank: vaults, their authority and the fee state are
    PDAs (seeds constraint), the bank belongs to the group -/
theorem collect_accounts_bound :
    (∀ f ∈ [F.f_liquidity_vault, .f_insurance_vault, .f_fee_vault, .f_liquidity_vault_authority, .f_fee_state],
      (fieldOf .LendingPoolCollectBankFees f).map (·.hasSeeds) = some true) ∧
    hasOneOf .LendingPoolCollectBankFees .f_bank .f_group = true := by decide

/-- draw-down of the fee and insurance vaults: the group admin signs (`has_one = admin` on the
    group, `admin: Signer`), vault and authority are the bank's PDAs -/
theorem admin_drawdown : ∀ s ∈ [S.LendingPoolWithdrawFees, .LendingPoolWithdrawInsurance],
    hasOneOf s .f_group .f_admin = true ∧ Acc.isSigner s .f_admin = true ∧ hasOneOf s .f_bank .f_group = true := by
  decide

theorem admin_drawdown_vaults :
    (fieldOf .LendingPoolWithdrawFees .f_fee_vault).map (·.hasSeeds) = some true ∧
    (fieldOf .LendingPoolWithdrawFees .f_fee_vault_authority).map (·.hasSeeds) = some true ∧
    (fieldOf .LendingPoolWithdrawInsurance .f_insurance_vault).map (·.hasSeeds) = some true ∧
    (fieldOf .LendingPoolWithdrawInsurance .f_insurance_vault_authority).map (·.hasSeeds) = some true := by decide

/-- anyone may sweep fees, but only into the destination stored in the bank (`has_one =
    fees_destination_account`), which only the group admin can set -/
theorem permissionless_fee_destination :
    hasOneOf .LendingPoolWithdrawFeesPermissionless .f_bank .f_fees_destination_account = true ∧
    hasOneOf .LendingPoolWithdrawFeesPermissionless .f_bank .f_group = true ∧
    (fieldOf .LendingPoolWithdrawFeesPermissionless .f_fee_vault).map (·.hasSeeds) = some true ∧
    hasOneOf .LendingPoolUpdateFeesDestinationAccount .f_group .f_admin = true ∧
    Acc.isSigner .LendingPoolUpdateFeesDestinationAccount .f_admin = true ∧
    hasOneOf .LendingPoolUpdateFeesDestinationAccount .f_bank .f_group = true := by decide

/-- emissions are paid either to a destination passed by an authorised signer of the account, or
    (permissionless) after the destination check against the account's stored wallet, which only
    the account authority can set; the vault and its authority are PDAs of (bank, mint) -/
theorem emissions_destinations :
    hasCons .LendingAccountWithdrawEmissions .f_marginfi_account (.signerAuth .f_marginfi_account .f_authority false) = true ∧
    hasCons .LendingAccountWithdrawEmissions .f_marginfi_account (.notFrozen .f_marginfi_account .f_authority) = true ∧
    Acc.isSigner .LendingAccountWithdrawEmissions .f_authority = true ∧
    hasOneOf .MarginfiAccountUpdateEmissionsDestinationAccount .f_marginfi_account .f_authority = true ∧
    Acc.isSigner .MarginfiAccountUpdateEmissionsDestinationAccount .f_authority = true ∧
    occursBefore withdraw_emissions_permissionless (· == .emisDestCheck) (fun e => e == .settleEmissions || e == .transferChecked) = true ∧
    (∀ s ∈ [S.LendingAccountWithdrawEmissions, .LendingAccountWithdrawEmissionsPermissionless],
      (fieldOf s .f_emissions_vault).map (·.hasSeeds) = some true ∧
      (fieldOf s .f_emissions_auth).map (·.hasSeeds) = some true ∧
      hasOneOf s .f_bank .f_emissions_mint = true ∧ hasOneOf s .f_bank .f_group = true ∧
      hasOneOf s .f_marginfi_account .f_group = true) := by decide

/-- the emission payout follows the settlement: what is transferred is what was settled -/
theorem emissions_payout_after_settle :
    occursBefore withdraw_emissions (· == .settleEmissions) (· == .transferChecked) = true ∧
    occursBefore withdraw_emissions_permissionless (· == .settleEmissions) (· == .transferChecked) = true ∧
    settle_emissions = [.find, .claimEmissions] := by decide

end tables

/-- emissions are computed on the position's amount divided by the row chosen by the mint decimals: that table is exactly the powers of ten 10^0 .. 10^23 as I80F48 (regenerated from the real
    constants on every run; the model computes its own powers of ten and is diffed against the real functions across
    ALL 24 decimals) -/
theorem scaling_table_is_powers_of_ten : Mfi.Gen.EXP_10_I80F48 = Mfi.Fx.POW10FX := Mfi.ConstL.exp10_table_exact

/-- the destination-mint constraints of the fee sweeps (`destination_account.mint == bank.mint`) and the group test of settle_emissions have no recognised kind in the generated constraint table; their text is pinned by fingerprint
    (C08.unclassified_constraints_pinned), so an edit of any of them breaks an obligation of this property too -/
theorem unclassified_constraints_pinned :
    Mfi.Gen.Acc.otherFingerprints =
      [(.LendingPoolAddBankKamino, .f_integration_acc_1, 1294895318964715725), (.KaminoDeposit, .f_integration_acc_2, 102789841884831255),
       (.KaminoDeposit, .f_integration_acc_2, 2232305478470895852), (.KaminoWithdraw, .f_integration_acc_2, 2232305478470895852),
       (.KaminoWithdraw, .f_integration_acc_2, 102789841884831255), (.LendingAccountSettleEmissions, .f_marginfi_account, 1925430640847475726),
       (.LendingPoolAddBankSolend, .f_integration_acc_1, 1481642461694787521),
       (.SolendDeposit, .f_integration_acc_2, 1332785733999453949), (.SolendWithdraw, .f_integration_acc_2, 1332785733999453949),
       (.LendingPoolUpdateFeesDestinationAccount, .f_destination_account, 2287509815940661847), (.LendingPoolWithdrawFeesPermissionless, .f_fees_destination_account, 442390752958412362),
       (.PropagateStakedSettings, .f_bank, 192467567798966075), (.LendingPoolAddBankDrift, .f_integration_acc_1, 778144333709451630),
       (.DriftDeposit, .f_integration_acc_2, 3003145849582993), (.DriftDeposit, .f_integration_acc_1, 1555694171009604275),
       (.DriftHarvestReward, .f_integration_acc_2, 522844572761367543), (.DriftHarvestReward, .f_harvest_drift_spot_market, 1082706562961323273),
       (.DriftHarvestReward, .f_harvest_drift_spot_market, 2159362736921184234), (.DriftWithdraw, .f_integration_acc_2, 3003145849582993),
       (.DriftWithdraw, .f_integration_acc_2, 471323873936025127), (.DriftWithdraw, .f_integration_acc_2, 1377500195096470279),
       (.DriftWithdraw, .f_integration_acc_1, 1555694171009604275)] :=
  Mfi.Props.C08.unclassified_constraints_pinned

/-- what the emissions vault receives when the emissions admin funds `total` (the transfer is sized by calculate_pre_fee_spl_deposit_amount for the emissions mint in the current epoch) is at least the `total` credited to emissions_remaining — in every epoch, also the one in which a scheduled fee change activates (C03 mint_prefee_covers; tf.mint lines of the tokenfee family run here too) -/
theorem emissions_funding_arrives {m : Mfi.Token.Mint} {epoch post pre f : Int} (hp : 0 ≤ post)
    (hm : ∀ c, m = .t22fee c → Mfi.FreeL.FeeCfgOk c)
    (h : Mfi.Token.mintPre m epoch post = some pre) (hf : Mfi.Token.mintFee m epoch pre = some f) : post ≤ pre - f :=
  Mfi.FreeL.mint_prefee_covers hp hm h hf

section whole_instructions
open Mfi Mfi.World Mfi.Gen Mfi.Gen.Acc

/-! ### the whole withdrawal of emissions (Mfi/Model/World.lean: `World.withdrawEmissions`) -/

/-- **world_withdraw_emissions_spec**: `lending_account_withdraw_emissions` goes through only in a group that is not paused,
    for the account's authority (or the group admin of a frozen account) — there is no receivership path —, on an account and a
    bank of that group, with the BANK'S OWN emissions mint, on an account that is not disabled; what leaves the emissions vault is
    exactly the whole-token part of `settle_emissions` of the position at the current time (the claim up to now credited first,
    the fraction kept on the position), the bank's remaining pool falls by what was credited, and nothing else of the account
    changes (no other slot, no re-sort). -/
theorem world_withdraw_emissions_spec {c : Ctx} {o : Out} (h : World.withdrawEmissions c = .ok o) :
    c.g.paused = false ∧ c.a.group = c.g.key ∧ c.b.group = c.g.key ∧ c.b.emissionsMint = c.emisMint ∧
    Auth.notFrozenForAuthority (acctView c.a.authority c.a.flags) c.signer = true ∧
    Auth.isSignerAuthorized (acctView c.a.authority c.a.flags) c.g.admin c.signer false = true ∧
    flag c ACCOUNT_DISABLED = false ∧
    ∃ i s x', findSlot c = .ok (i, s) ∧ Bank.settleEmissions c.b.books (toBal s) c.now = .ok (o.books, x', o.tokens) ∧
      o.slots = c.a.slots.set i (ofBal c.b.key x') := by
  unfold World.withdrawEmissions at h
  obtain ⟨_, hc, h⟩ := Res.bind_ok h
  obtain ⟨_, hf, h⟩ := Res.bind_ok h
  obtain ⟨⟨i, s⟩, hfs, h⟩ := Res.bind_ok h
  dsimp only at h
  obtain ⟨⟨b', x', amt⟩, hset, h⟩ := Res.bind_ok h
  injection h with h
  subst h
  have hc' := runChecks_ok hc
  simp only [checks, List.forall_mem_cons, List.not_mem_nil, false_imp_iff, implies_true, and_true] at hc'
  simp [evalChk, Ctx.env, flBit, flagsOf, AccV.key] at hc'
  obtain ⟨c1, c2, c3, c4, c5, c6, _⟩ := hc'
  have hf' := Bank.chk_ok hf
  simp only [Bool.not_eq_true'] at hf'
  exact ⟨c1, c2, c5, c6, c3, c4, hf', i, s, x', hfs, hset, rfl⟩

/-! ### the whole fee collection (Mfi/Model/World.lean: `World.collectFeesIx`) -/

/-- **world_collect_spec**: the permissionless `lending_pool_collect_bank_fees` goes through only in a group that is not paused,
    on a bank of that group, with the fee ATA of the global fee wallet for the bank's mint; then the insurance vault, the fee
    vault and the program's ATA receive the whole-token parts of min(bucket, liquidity still available) in that order of claims
    on the liquidity vault, each bucket falls by exactly what moved to ITS destination, together no more than the vault holds,
    and nothing else of the books changes (no accrual, no share value, no total). -/
theorem world_collect_spec {c : Ctx} {ok : Bool} {o : CollectOut} (h : World.collectFeesIx c ok = .ok o) :
    c.g.paused = false ∧ c.b.group = c.g.key ∧ ok = true ∧
    o.toInsurance = min c.b.books.feeI (c.vaultAmount * ONE) / ONE ∧
    o.toGroup = min c.b.books.feeG ((c.vaultAmount - o.toInsurance) * ONE) / ONE ∧
    o.toProgram = min c.b.books.feeP ((c.vaultAmount - o.toInsurance - o.toGroup) * ONE) / ONE ∧
    o.books = { c.b.books with feeI := c.b.books.feeI - o.toInsurance * ONE, feeG := c.b.books.feeG - o.toGroup * ONE,
                               feeP := c.b.books.feeP - o.toProgram * ONE } ∧
    0 ≤ o.toInsurance ∧ 0 ≤ o.toGroup ∧ 0 ≤ o.toProgram ∧ o.toInsurance + o.toGroup + o.toProgram ≤ c.vaultAmount := by
  unfold World.collectFeesIx at h
  obtain ⟨_, hc, h⟩ := Res.bind_ok h
  obtain ⟨_, hk, h⟩ := Res.bind_ok h
  obtain ⟨r, hr, h⟩ := Res.bind_ok h
  injection h with h
  subst h
  have hc' := runChecks_ok hc
  simp only [checks, List.forall_mem_cons, List.not_mem_nil, false_imp_iff, implies_true, and_true] at hc'
  simp [evalChk, Ctx.env] at hc'
  obtain ⟨c1, c2⟩ := hc'
  obtain ⟨e1, e2, e3, e4, e5, e6, n1, n2, n3, n4⟩ := collect_exact hr
  refine ⟨c1, c2, Bank.chk_ok hk, e1, e2, e3, ?_, n1, n2, n3, n4⟩
  simp only
  rw [e4, e5, e6]

end whole_instructions

end Mfi.Props.C19
