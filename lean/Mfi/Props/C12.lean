/-
  C12 — Least privilege: each admin role changes only what it is entitled to.
  Theorems about Mfi/Model/Admin.lean (Bank::configure, configure_unfrozen_fields_only, flag updates,
  interest-only / limits-only handlers, the deleverage withdraw window), which the `admin` family diffs
  against the real functions; field-level frames of the real instructions (incl. everything the model
  does not carry: shares, vault keys, e-mode, oracle) are checked through real dispatch by the C12 monitor.
-/
import Mfi.Model.Admin
import Mfi.Lemmas.AccL
import Mfi.Lemmas.ResL
import Mfi.Props.C10
import Mfi.Props.C08
import Mfi.Model.Interest
import Mfi.Lemmas.WorldL
import Mfi.Lemmas.WorldSolvH
import Mfi.Lemmas.WorldRecvL
import Mfi.Lemmas.WorldTxSolv
namespace Mfi.Props.C12
open Mfi Mfi.Admin Mfi.Gen

theorem testBit_mask64 (i : Nat) : (18446744073709551615 : Nat).testBit i = decide (i < 64) := by
  have : (18446744073709551615 : Nat) = 2 ^ 64 - 1 := by decide
  rw [this]; exact Nat.testBit_two_pow_sub_one 64 i

/-- setting / clearing the flag bit 2^k touches only bit k (of a 64-bit word) -/
theorem setBit_testBit (flags k : Nat) (v : Bool) (i : Nat) (hi : i < 64) :
    (setBit flags ((2 ^ k : Nat) : Int) v).testBit i = if i = k then v else flags.testBit i := by
  unfold setBit
  simp only [Int.toNat_natCast]
  cases v
  · simp only [Bool.false_eq_true, ↓reduceIte, Nat.testBit_and, Nat.testBit_xor, testBit_mask64, Nat.testBit_two_pow]
    by_cases h : i = k
    · subst h; simp [hi, testBit_mask64]
    · have : ¬ k = i := fun e => h e.symm
      simp [h, this, hi, testBit_mask64]
  · simp only [↓reduceIte, Nat.testBit_or, Nat.testBit_two_pow]
    by_cases h : i = k
    · subst h; simp
    · have : ¬ k = i := fun e => h e.symm
      simp [h, this]


theorem flag_consts :
    PERMISSIONLESS_BAD_DEBT_SETTLEMENT_FLAG = ((2 ^ 2 : Nat) : Int) ∧ FREEZE_SETTINGS = ((2 ^ 3 : Nat) : Int) ∧
    TOKENLESS_REPAYMENTS_ALLOWED = ((2 ^ 5 : Nat) : Int) ∧ EMISSION_FLAGS = 3 := by decide

theorem applyFlag_testBit (flags k : Nat) (o : Option Bool) (i : Nat) (hi : i < 64) (hik : i ≠ k) :
    (applyFlag flags ((2 ^ k : Nat) : Int) o).testBit i = flags.testBit i := by
  cases o with
  | none => rfl
  | some v => simp only [applyFlag]; rw [setBit_testBit _ _ _ _ hi]; simp [hik]

/-! ### the handlers (model level) -/

/-- `lending_pool_configure_bank`: frozen banks take the limits-only path -/
def configureBankIx (c : Cfg) (flags : Nat) (o : CfgOpt) : Res (Cfg × Nat) :=
  if hasFlag flags FREEZE_SETTINGS then .ok (configureUnfrozen c o, flags) else configure c flags o

/-- `lending_pool_configure_bank_interest_only` -/
def interestOnlyIx (c : Cfg) (flags : Nat) (o : IrOpt) : Res Cfg :=
  if hasFlag flags FREEZE_SETTINGS then .ok c
  else
    let ir' := irUpdate c.ir o
    match Interest.validate ir'.toCalc with
    | .ok true => .ok { c with ir := ir' }
    | .ok false => .error (.err E.InvalidConfig)
    | .error f => .error f

/-- `lending_pool_configure_bank_limits_only` -/
def limitsOnlyIx (c : Cfg) (flags : Nat) (dl bl il : Option Int) : Cfg :=
  if hasFlag flags FREEZE_SETTINGS then { c with depositLimit := setIf c.depositLimit dl, borrowLimit := setIf c.borrowLimit bl }
  else { c with depositLimit := setIf c.depositLimit dl, borrowLimit := setIf c.borrowLimit bl, initLimit := setIf c.initLimit il }

/-- **frozen_frame (configure_bank)**: on a bank with FREEZE_SETTINGS set, the full configure
    instruction changes nothing but the deposit and borrow limits — weights, interest curve, risk tier,
    collateral-value cap, operational state, oracle limits and every flag (the freeze bit included) stay. -/
theorem frozen_frame_configure (c c' : Cfg) (flags f' : Nat) (o : CfgOpt)
    (hf : hasFlag flags FREEZE_SETTINGS = true) (h : configureBankIx c flags o = .ok (c', f')) :
    f' = flags ∧ c' = { c with depositLimit := c'.depositLimit, borrowLimit := c'.borrowLimit } := by
  simp only [configureBankIx, hf, ↓reduceIte] at h
  injection h with h
  injection h with h1 h2
  subst h1; subst h2
  exact ⟨rfl, rfl⟩

/-- **frozen_frame (interest-only)**: does nothing at all on a frozen bank -/
theorem frozen_frame_interest (c c' : Cfg) (flags : Nat) (o : IrOpt)
    (hf : hasFlag flags FREEZE_SETTINGS = true) (h : interestOnlyIx c flags o = .ok c') : c' = c := by
  simp only [interestOnlyIx, hf, ↓reduceIte] at h
  injection h with h; exact h.symm

/-- **frozen_frame (limits-only)**: only the two limits on a frozen bank (not the collateral-value cap) -/
theorem frozen_frame_limits (c : Cfg) (flags : Nat) (dl bl il : Option Int)
    (hf : hasFlag flags FREEZE_SETTINGS = true) :
    limitsOnlyIx c flags dl bl il = { c with depositLimit := setIf c.depositLimit dl, borrowLimit := setIf c.borrowLimit bl } := by
  simp [limitsOnlyIx, hf]

/-- **interest_only_frame**: the curve admin's instruction changes nothing outside `interest_rate_config` -/
theorem interest_only_frame (c c' : Cfg) (flags : Nat) (o : IrOpt) (h : interestOnlyIx c flags o = .ok c') :
    c' = { c with ir := c'.ir } := by
  unfold interestOnlyIx at h
  split at h
  · injection h with h; subst h; rfl
  · dsimp only at h
    split at h
    · injection h with h; subst h; rfl
    · cases h
    · cases h

/-- **limits_only_frame**: the limit admin's instruction changes only the three limits -/
theorem limits_only_frame (c : Cfg) (flags : Nat) (dl bl il : Option Int) :
    let c' := limitsOnlyIx c flags dl bl il
    c' = { c with depositLimit := c'.depositLimit, borrowLimit := c'.borrowLimit, initLimit := c'.initLimit } := by
  simp only [limitsOnlyIx]
  split <;> rfl

/-- **configure_flags_frame**: `Bank::configure` can only change the three group-flag bits
    (permissionless bad-debt settlement = bit 2, freeze = bit 3, token-less repayments allowed = bit 5);
    every other bit of the flag word — the emissions bits, CLOSE_ENABLED, TOKENLESS_REPAYMENTS_COMPLETE and
    all unassigned bits — is preserved. -/
theorem configure_flags_frame (c c' : Cfg) (flags f' : Nat) (o : CfgOpt) (h : configure c flags o = .ok (c', f'))
    (i : Nat) (hi : i < 64) (h2 : i ≠ 2) (h3 : i ≠ 3) (h5 : i ≠ 5) : f'.testBit i = flags.testBit i := by
  unfold configure at h
  obtain ⟨_, _, h⟩ := Res.bind_ok h
  dsimp only at h
  obtain ⟨_, _, h⟩ := Res.bind_ok h
  injection h with h
  injection h with _ hf
  rw [← hf, flag_consts.1, flag_consts.2.1, flag_consts.2.2.1]
  rw [applyFlag_testBit _ _ _ _ hi h5, applyFlag_testBit _ _ _ _ hi h3, applyFlag_testBit _ _ _ _ hi h2]

/-- **emissions_frame (flags)**: the emissions admin's flag update replaces exactly the two emission bits
    (bits 0 and 1) and keeps every other bit, in particular FREEZE_SETTINGS — nobody can lift the freeze
    through it; a word containing any other bit is refused. (Full statement since `fix: emissions flag
    updates replace only the two emissions bits …`; before it the whole word was overwritten.) -/
theorem emissions_flags_frame (flags f r : Nat) (h : overrideEmissionsFlag flags f = .ok r)
    (i : Nat) (hi : i < 64) : r.testBit i = if i < 2 then f.testBit i else flags.testBit i := by
  unfold overrideEmissionsFlag at h
  split at h
  · cases h
  · rename_i hv
    injection h with h
    have hf : verifyEmissionsFlags f = true := by simpa using hv
    have e3 : EMISSION_FLAGS.toNat = 3 := by decide
    simp only [verifyEmissionsFlags, e3, beq_iff_eq] at hf
    rw [← h, e3]
    have h3 : (3 : Nat).testBit i = decide (i < 2) := by
      have : (3 : Nat) = 2 ^ 2 - 1 := by decide
      rw [this]; exact Nat.testBit_two_pow_sub_one 2 i
    have hfi : (f.testBit i && decide (i < 2)) = f.testBit i := by
      have := congrArg (fun n => Nat.testBit n i) hf
      simpa [Nat.testBit_and, h3] using this
    have hx : (Nat.xor 3 (2 ^ 64 - 1)).testBit i = (decide (i < 2) ^^ decide (i < 64)) := by
      have : Nat.xor 3 (2 ^ 64 - 1) = 3 ^^^ 18446744073709551615 := rfl
      rw [this, Nat.testBit_xor, h3, testBit_mask64]
    rw [Nat.testBit_or, Nat.testBit_and, hx]
    by_cases h2 : i < 2
    · simp [h2, hi]
    · rw [← hfi]; simp [h2, hi]

theorem emissions_flags_rejects_other_bits (flags f : Nat) (h : (f &&& 3) ≠ f) :
    overrideEmissionsFlag flags f = .error .panic := by
  unfold overrideEmissionsFlag verifyEmissionsFlags
  simp [flag_consts.2.2.2, h]

/-- nobody can lift the freeze: every per-bank configuration path leaves the freeze bit set once it is set -/
theorem freeze_never_lifted (c c' : Cfg) (flags f' : Nat) (o : CfgOpt)
    (hf : hasFlag flags FREEZE_SETTINGS = true) (h : configureBankIx c flags o = .ok (c', f')) :
    hasFlag f' FREEZE_SETTINGS = true := by
  rw [(frozen_frame_configure c c' flags f' o hf h).1]; exact hf

/-! ### forced deleverage: the daily withdraw window -/

/-- window state with a ghost: the exact sum of whole dollars accepted since the last reset -/
structure WState where
  w : Window
  ghost : Int

def wstep (s : WState) (x : Int × Int) : WState :=   -- (value bits, now)
  match updateWithdrawnEquity s.w x.1 x.2 with
  | .ok w' =>
    if w'.lastReset = s.w.lastReset then ⟨w', s.ghost + x.1 / Fx.ONE⟩ else ⟨w', x.1 / Fx.ONE⟩
  | .error _ => s

theorem reset_spec (w : Window) (now : Int) :
    (resetWindow w now).dailyLimit = w.dailyLimit ∧
    ((resetWindow w now = w) ∨
     ((resetWindow w now).withdrawnToday = 0 ∧ (resetWindow w now).lastReset = now ∧ now ≠ w.lastReset)) := by
  unfold resetWindow
  split
  · rename_i h
    refine ⟨rfl, Or.inr ⟨rfl, rfl, ?_⟩⟩
    intro he
    rw [he] at h
    simp [satI64, Mfi.Gen.DAILY_RESET_INTERVAL] at h
  · exact ⟨rfl, Or.inl rfl⟩

theorem addDollars_spec {w w' : Window} {n : Int} (h : addDollars w n = .ok w') (hl : w.dailyLimit ≠ 0) :
    w' = { w with withdrawnToday := w.withdrawnToday + n } ∧ 0 ≤ n ∧ w.withdrawnToday + n ≤ w.dailyLimit := by
  unfold addDollars at h
  split at h
  · rename_i hr
    split at h
    · cases h
    · rename_i hc
      injection h with h
      refine ⟨h.symm, hr.1, ?_⟩
      have : ¬ (w.withdrawnToday + n > w.dailyLimit) := fun hh => hc ⟨hl, hh⟩
      omega
  · simp [hl, bad] at h

/-- **withdraw_window**: with a non-zero daily limit, over EVERY history of deleverage withdrawals
    (any values, any timestamps), the exact whole-dollar sum accepted since the last window reset never
    exceeds the limit — the counter can neither wrap nor saturate past it. -/
theorem withdraw_window (xs : List (Int × Int)) : ∀ (s : WState), s.w.dailyLimit ≠ 0 →
    s.ghost = s.w.withdrawnToday → s.ghost ≤ s.w.dailyLimit →
    (xs.foldl wstep s).ghost ≤ (xs.foldl wstep s).w.dailyLimit ∧ (xs.foldl wstep s).w.dailyLimit = s.w.dailyLimit := by
  induction xs with
  | nil => intro s _ _ h; exact ⟨h, rfl⟩
  | cons x rest ih =>
    intro s hl hg hle
    simp only [List.foldl_cons]
    have key : (wstep s x).w.dailyLimit = s.w.dailyLimit ∧ (wstep s x).ghost = (wstep s x).w.withdrawnToday ∧
        (wstep s x).ghost ≤ (wstep s x).w.dailyLimit := by
      unfold wstep
      cases hu : updateWithdrawnEquity s.w x.1 x.2 with
      | error e => exact ⟨rfl, hg, hle⟩
      | ok w' =>
        simp only
        unfold updateWithdrawnEquity at hu
        obtain ⟨rl, rr⟩ := reset_spec s.w x.2
        obtain ⟨e, hn, hb⟩ := addDollars_spec hu (by rw [rl]; exact hl)
        rcases rr with rr | ⟨r0, r1, r2⟩
        · rw [rr] at e hb
          have hsame : w'.lastReset = s.w.lastReset := by rw [e]
          simp only [hsame, ↓reduceIte]
          rw [e]
          simp only
          exact ⟨trivial, by omega, by omega⟩
        · have hdiff : ¬ w'.lastReset = s.w.lastReset := by rw [e]; simp only; rw [r1]; exact r2
          simp only [hdiff, ↓reduceIte]
          rw [e]
          simp only
          rw [r0] at hb ⊢
          rw [rl] at hb ⊢
          exact ⟨rfl, by omega, by omega⟩
    have := ih (wstep s x) (by rw [key.1]; exact hl) key.2.1 key.2.2
    exact ⟨this.1, by rw [this.2, key.1]⟩

/-! ### the numbers of the property text -/

/-- "within a day" -/
theorem a_day_is_86400_seconds : Mfi.Gen.DAILY_RESET_INTERVAL = 86400 := by decide

/-- **a forced deleverage cannot leave the account less healthy**: an accepted `end_deleverage` means the
    maintenance health of the portfolio at the end is at least the health recorded when the bracket started
    (model Risk.endDeleverage, diffed against the real instruction; proof: C10.end_receivership_spec) -/
theorem deleverage_cannot_worsen_health {pre : Mfi.Risk.PreCache} {ps : List Mfi.Risk.Pos} {seized repaid : Int}
    (h : Mfi.Risk.endDeleverage pre ps = .ok (seized, repaid)) :
    ∃ cm, Mfi.Risk.components ps .maint = .ok cm ∧ pre.aMaint - pre.lMaint ≤ cm.assets - cm.liabs :=
  Mfi.Props.C10.end_deleverage_spec h

/-- **each role acts on the banks of ITS group only**: every existing bank account of every instruction (the named
    single-bank permissionless cranks excepted) carries `has_one = group`, so the group whose admin fields authorise an
    administrative instruction is the group the written bank belongs to (C08.banks_bound_to_group over the regenerated
    constraint table; the cross-group cases are replayed through real dispatch by the C12 monitor) -/
theorem admin_banks_bound_to_group :
    ∀ s ∈ Mfi.Gen.Acc.allStructs, ∀ f ∈ Mfi.Gen.Acc.fields s, f.ty = .loader .bank → f.isInit = false →
      (f.hasOne.any Mfi.Props.C08.groupish = true ∨
       s ∈ [.MigrateCurve, .InitBankMetadata, .LendingAccountSettleEmissions, .PropagateStakedSettings,
            .KaminoHarvestReward, .KaminoInitObligation, .SolendInitObligation, .DriftHarvestReward, .DriftInitUser]) :=
  Mfi.Props.C08.banks_bound_to_group

/-! ### known finding C12-F3: the permissionless `migrate_curve` can re-price a bank whose settings are frozen

The seven-point form keeps rates on a u32 grid whose ceiling is 1000 % APR; a LEGACY curve may legally carry a plateau or
maximum rate above that (validate_legacy only demands 0 < plateau < max). `migrate_curve` needs no signature and does not
look at FREEZE_SETTINGS; for such a curve it clamps the rates, i.e. changes the interest curve of a bank — frozen or not. -/

/-- the legacy curve of the witness: optimal 50 %, plateau 100 %, maximum 1400 % -/
def frozenLegacy : Mfi.Interest.IrCalc :=
  { optimal := Mfi.Fx.ONE / 2, plateau := Mfi.Fx.ONE, maxIr := 14 * Mfi.Fx.ONE, insFixed := 0, insRate := 0, grpFixed := 0, grpRate := 0,
    progFixed := 0, progRate := 0, addProgramFees := false, zeroRate := 0, hundredRate := 0,
    points := [⟨0,0⟩,⟨0,0⟩,⟨0,0⟩,⟨0,0⟩,⟨0,0⟩], curveType := 0 }

/-- **migrate_can_change_the_curve** (kernel-checked witness; replayed on the real instruction by the C12 monitor every
    run: 'migrate-curve-changes-frozen-rate'): the configuration is accepted, the migration succeeds, and the base rate
    at full utilisation falls from 1400 % to (just under) 1000 % -/
theorem migrate_can_change_the_curve :
    Mfi.Interest.validate frozenLegacy = .ok true ∧
    Mfi.Interest.baseRate frozenLegacy Mfi.Fx.ONE = .ok (14 * Mfi.Fx.ONE) ∧
    ∃ c', Mfi.Interest.migrateCurve frozenLegacy = .ok c' ∧
      ∃ r, Mfi.Interest.baseRate c' Mfi.Fx.ONE = .ok r ∧ r < 10 * Mfi.Fx.ONE + 1 ∧ 9 * Mfi.Fx.ONE < r := by
  refine ⟨by rfl, by rfl, _, by rfl, _, by rfl, by decide, by decide⟩

section whole_instructions
open Mfi Mfi.World Mfi.Gen Mfi.Gen.Acc Mfi.Admin

/-! ### whole instructions (Mfi/Model/World.lean) -/

/-- **world_deleverage_withdrawal_is_metered**: a withdrawal from an account flagged as being deleveraged goes through
    only if the group's daily window accepts the whole-dollar value of the tokens that leave (valued at the receivership
    price, unweighted): with a non-zero limit, today's counter after the instruction is the counter of the (possibly reset)
    window plus those dollars, and does not exceed the limit. -/
theorem world_deleverage_withdrawal_is_metered {c : Ctx} {amt : Int} {all : Bool} {o : Out}
    (h : World.withdraw c amt all = .ok o) (hd : flag c ACCOUNT_IN_DELEVERAGE = true) (hl : c.g.window.dailyLimit ≠ 0) :
    ∃ price v, withdrawPrice c = .ok price ∧
      Risk.calcValue (Fx.ofInt o.tokens) price (Bank.balanceDecimals o.books) none = .ok v ∧
      o.window = { resetWindow c.g.window c.now with withdrawnToday := (resetWindow c.g.window c.now).withdrawnToday + v / Fx.ONE } ∧
      0 ≤ v / Fx.ONE ∧ o.window.withdrawnToday ≤ o.window.dailyLimit ∧ o.window.dailyLimit = c.g.window.dailyLimit := by
  obtain ⟨price, b, i, s, x', pre, hp, _, _, _, _, hw, _⟩ := (withdraw_ok h).core
  unfold withdrawWindow at hw
  rw [if_pos hd] at hw
  obtain ⟨v, hv, hw⟩ := Res.bind_ok hw
  unfold updateWithdrawnEquity at hw
  have hlim := (reset_spec c.g.window c.now).1
  obtain ⟨e, h0, hle⟩ := addDollars_spec hw (by rw [hlim]; exact hl)
  refine ⟨price, v, hp, hv, e, h0, ?_, ?_⟩
  · rw [e]; simpa using hle
  · rw [e]; simpa using hlim

/-- every other path leaves the window alone: deposits, borrows, repayments, closures, and withdrawals from accounts that
    are not being deleveraged -/
theorem world_window_frame (c : Ctx) :
    (∀ amt up o, World.deposit c amt up = .ok o → o.window = c.g.window) ∧
    (∀ amt o, World.borrow c amt = .ok o → o.window = c.g.window) ∧
    (∀ amt all o, World.repay c amt all = .ok o → o.window = c.g.window) ∧
    (∀ o, World.closeBalance c = .ok o → o.window = c.g.window) ∧
    (∀ amt all o, World.withdraw c amt all = .ok o → flag c ACCOUNT_IN_DELEVERAGE = false → o.window = c.g.window) := by
  refine ⟨fun _ _ _ h => (deposit_ok h).window, fun _ _ h => (borrow_ok h).window, fun _ _ _ h => (repay_ok h).window,
    fun _ h => (close_ok h).rest.2, ?_⟩
  intro amt all o h hd
  obtain ⟨price, b, i, s, x', pre, _, _, _, _, _, hw, _⟩ := (withdraw_ok h).core
  unfold withdrawWindow at hw
  rw [hd] at hw
  simp only [Bool.false_eq_true, if_false] at hw
  injection hw with hw
  exact hw.symm

end whole_instructions


section world_machine
open Mfi Mfi.World

/-- **world_machine_changes_no_configuration**: no instruction of the world state machine — none of the user instructions, the
    liquidations, the bankruptcy settlement, the transfer, the permissionless cranks, by any signer with any arguments — changes a
    bank's key, group, vault, interest-rate configuration, origination fee, transfer-fee parameters, risk weights and limits
    (`risk`) or oracle; the operational state stays as it is or becomes KilledByBankruptcy (by a settlement that wipes the bank
    out). Configuration is the admin instructions' alone (the frames above say which field belongs to which role). -/
theorem world_machine_changes_no_configuration (w : World.WState) (op : World.WOp) (j : Nat) (x : WBank) (hx : w.banks[j]? = some x) :
    ∃ x', (w.step op).banks[j]? = some x' ∧ SameCfg x x' := step_bank_frame w op j x hx

/-- … over every history -/
theorem world_history_changes_no_configuration (ops : List World.WOp) : ∀ (w : World.WState) (j : Nat) (x : WBank), w.banks[j]? = some x →
    ∃ x', (w.run ops).banks[j]? = some x' ∧ x'.v.key = x.v.key ∧ x'.v.group = x.v.group ∧ x'.v.ir = x.v.ir ∧ x'.risk = x.risk ∧
      x'.feed = x.feed ∧ (x'.v.opState = x.v.opState ∨ x'.v.opState = 3) := by
  induction ops with
  | nil => intro w j x hx; exact ⟨x, hx, rfl, rfl, rfl, rfl, rfl, Or.inl rfl⟩
  | cons op rest ih =>
    intro w j x hx
    simp only [World.WState.run, List.foldl_cons]
    obtain ⟨x1, hx1, c1⟩ := step_bank_frame w op j x hx
    obtain ⟨x2, hx2, k2, g2, i2, r2, f2, o2⟩ := ih (w.step op) j x1 hx1
    obtain ⟨a1, a2, _, a4, _, _, _, _, a9, a10, a11⟩ := c1
    refine ⟨x2, hx2, by rw [k2, a1], by rw [g2, a2], by rw [i2, a4], by rw [r2, a9], by rw [f2, a10], ?_⟩
    rcases o2 with o2 | o2
    · rcases a11 with a11 | a11
      · left; rw [o2, a11]
      · right; rw [o2, a11]
    · right; exact o2

/-- the weaker frame that composes over histories: key, group, rate configuration, risk parameters and oracle as they were; the
    operational state as it was or KilledByBankruptcy -/
def CfgKept (x x' : WBank) : Prop :=
  x'.v.key = x.v.key ∧ x'.v.group = x.v.group ∧ x'.v.ir = x.v.ir ∧ x'.risk = x.risk ∧ x'.feed = x.feed ∧
  (x'.v.opState = x.v.opState ∨ x'.v.opState = 3)

theorem cfgKept_of_same {x x' : WBank} (h : SameCfg x x') : CfgKept x x' := by
  obtain ⟨a1, a2, _, a4, _, _, _, _, a9, a10, a11⟩ := h
  exact ⟨a1, a2, a4, a9, a10, a11⟩

theorem cfgKept_trans {x y z : WBank} (h1 : CfgKept x y) (h2 : CfgKept y z) : CfgKept x z := by
  obtain ⟨a1, a2, a3, a4, a5, a6⟩ := h1
  obtain ⟨b1, b2, b3, b4, b5, b6⟩ := h2
  refine ⟨by rw [b1, a1], by rw [b2, a2], by rw [b3, a3], by rw [b4, a4], by rw [b5, a5], ?_⟩
  rcases b6 with b6 | b6
  · rcases a6 with a6 | a6
    · left; rw [b6, a6]
    · right; rw [b6, a6]
  · right; exact b6

theorem stepIn_cfg {tx : List TOp} {i : Nat} {t : TOp} {w w' : World.WState} (h : w.stepIn tx i t = some w')
    (j : Nat) (x : WBank) (hx : w.banks[j]? = some x) : ∃ x', w'.banks[j]? = some x' ∧ CfgKept x x' := by
  cases t with
  | ix op =>
    simp only [World.WState.stepIn] at h
    rw [step?_some h]
    obtain ⟨x', hx', hc⟩ := step_bank_frame w op j x hx
    exact ⟨x', hx', cfgKept_of_same hc⟩
  | startFlash ai signer endIdx =>
    simp only [World.WState.stepIn] at h
    split at h
    · split at h
      · injection h with h; subst h; exact ⟨x, hx, cfgKept_of_same (sameCfg_refl x)⟩
      · cases h
    · cases h
  | endFlash ai signer =>
    simp only [World.WState.stepIn] at h
    split at h
    · split at h
      · injection h with h; subst h; exact ⟨x, hx, cfgKept_of_same (sameCfg_refl x)⟩
      · cases h
    · cases h
  | startLiq ai receiver recordOk =>
    simp only [World.WState.stepIn] at h
    split at h
    · split at h
      · injection h with h; subst h; exact ⟨x, hx, cfgKept_of_same (sameCfg_refl x)⟩
      · cases h
    · cases h
  | endLiq ai signer recordOk walletOk feeMax =>
    simp only [World.WState.stepIn] at h
    split at h
    · split at h
      · injection h with h; subst h; exact ⟨x, hx, cfgKept_of_same (sameCfg_refl x)⟩
      · cases h
    · cases h
  | startDelev ai signer recordOk =>
    simp only [World.WState.stepIn] at h
    split at h
    · split at h
      · injection h with h; subst h; exact ⟨x, hx, cfgKept_of_same (sameCfg_refl x)⟩
      · cases h
    · cases h
  | endDelev ai signer recordOk =>
    simp only [World.WState.stepIn] at h
    split at h
    · split at h
      · injection h with h; subst h; exact ⟨x, hx, cfgKept_of_same (sameCfg_refl x)⟩
      · cases h
    · cases h

theorem runFrom_cfg (tx : List TOp) : ∀ (rest : List TOp) (i : Nat) (w w' : World.WState), World.WState.runFrom tx i rest w = some w' →
    ∀ (j : Nat) (x : WBank), w.banks[j]? = some x → ∃ x', w'.banks[j]? = some x' ∧ CfgKept x x' := by
  intro rest
  induction rest with
  | nil =>
    intro i w w' h j x hx
    simp only [World.WState.runFrom] at h; injection h with h; subst h
    exact ⟨x, hx, cfgKept_of_same (sameCfg_refl x)⟩
  | cons op rest ih =>
    intro i w w' h j x hx
    simp only [World.WState.runFrom] at h
    split at h
    · rename_i w1 h1
      obtain ⟨x1, hx1, c1⟩ := stepIn_cfg h1 j x hx
      obtain ⟨x2, hx2, c2⟩ := ih (i + 1) w1 w' h j x1 hx1
      exact ⟨x2, hx2, cfgKept_trans c1 c2⟩
    · cases h

/-- **world_transactions_change_no_configuration**: over every sequence of transactions of the world machine — user instructions,
    liquidations, settlements, cranks, flash-loan brackets, liquidation and forced-deleverage brackets, committed or rolled back,
    by anybody — every bank keeps its key, group, interest-rate configuration, risk weights and limits and its oracle; its
    operational state stays or becomes KilledByBankruptcy. What the risk admin can reach through a deleverage is positions (through
    withdraw / repay, metered) and the account's markers — never a bank's configuration. -/
theorem world_transactions_change_no_configuration : ∀ (txs : List (List TOp)) (w : World.WState) (j : Nat) (x : WBank),
    w.banks[j]? = some x → ∃ x', (w.runTxs txs).banks[j]? = some x' ∧ CfgKept x x' := by
  intro txs
  induction txs with
  | nil => intro w j x hx; exact ⟨x, hx, cfgKept_of_same (sameCfg_refl x)⟩
  | cons tx rest ih =>
    intro w j x hx
    simp only [World.WState.runTxs]
    cases hr : w.runTx tx with
    | none => simpa using ih w j x hx
    | some w1 =>
      obtain ⟨x1, hx1, c1⟩ := runFrom_cfg tx tx 0 w w1 hr j x hx
      obtain ⟨x2, hx2, c2⟩ := ih w1 j x1 hx1
      simp only [Option.getD_some]
      exact ⟨x2, hx2, cfgKept_trans c1 c2⟩

/-! #### what the risk admin's forced deleverage reaches (transactions of the world machine, `Mfi/Model/WorldTx.lean`) -/

/-- **world_deleverage_needs_the_risk_admin**: whichever of the two deleverage instructions goes through was signed by the
    group's risk admin, on an account of that group, with the account's own liquidation record -/
theorem world_deleverage_needs_the_risk_admin {c : RCtx} :
    (∀ {shape : Res Unit} {o : StartLiqOut}, startDeleverage c shape = .ok o → c.g.riskAdmin = c.receiver ∧ c.a.group = c.g.key ∧ c.recordOk = true) ∧
    (∀ {stack : Nat} {o : EndLiqOut}, endDeleverage c stack = .ok o → c.g.riskAdmin = c.receiver ∧ c.a.group = c.g.key ∧ c.recordOk = true ∧
      c.a.recReceiver = c.receiver) := by
  constructor
  · intro shape o h
    obtain ⟨⟨h1, h2, h3⟩, _⟩ := startDeleverage_ok h
    exact ⟨h3, h2, h1⟩
  · intro stack o h
    obtain ⟨⟨h1, h2, h3⟩, _, h4, _⟩ := endDeleverage_ok h
    exact ⟨h3, h2, h1, h4⟩

/-- **world_deleverage_bracket_touches_only_the_markers**: the start and the end of a forced deleverage, as instructions of a
    transaction, change nothing but the account's flag word, the receiver and the snapshot of its liquidation record: no
    position of any account, no bank, no group setting, not the clock. (What the risk admin does to balances in between goes
    through withdraw / repay, metered by `world_deleverage_withdrawal_is_metered`.) -/
theorem world_deleverage_bracket_touches_only_the_markers {w w' : World.WState} {tx : List TOp} {i ai signer : Nat} {ok : Bool}
    (h : w.stepIn tx i (.startDelev ai signer ok) = some w' ∨ w.stepIn tx i (.endDelev ai signer ok) = some w') :
    w'.banks = w.banks ∧ w'.g = w.g ∧ w'.now = w.now ∧
    ∃ a a', w.accts[ai]? = some a ∧ w'.accts = w.accts.set ai a' ∧ a'.slots = a.slots ∧ a'.key = a.key ∧ a'.group = a.group ∧
      a'.authority = a.authority ∧ a'.migratedTo = a.migratedTo := by
  rcases h with h | h
  · simp only [World.WState.stepIn] at h
    split at h
    · rename_i a ha
      split at h
      · injection h with h; subst h
        exact ⟨rfl, rfl, rfl, a, _, ha, rfl, rfl, rfl, rfl, rfl, rfl⟩
      · cases h
    · cases h
  · simp only [World.WState.stepIn] at h
    split at h
    · rename_i a ha
      split at h
      · injection h with h; subst h
        exact ⟨rfl, rfl, rfl, a, _, ha, rfl, rfl, rfl, rfl, rfl, rfl⟩
      · cases h
    · cases h

end world_machine

end Mfi.Props.C12
