/-
  C02 — Ledger consistency: bank totals equal the sum of all user positions (+ abandoned dust).

  Closed world of ONE bank and all positions held in it (a wrapper operation touches exactly one
  bank and one position, so banks are independent). Theorems about Mfi/Model/Bank.lean, which the
  `wrapper` family diffs against the real BankAccountWrapper.
-/
import Mfi.Model.Bank
import Mfi.Lemmas.FxL
import Mfi.Lemmas.ResL
import Mfi.Lemmas.BankL
import Mfi.Lemmas.DeltaL
import Mfi.Props.C03
import Mfi.Model.Ix
import Mfi.Model.Venue
import Mfi.Lemmas.WorldLedger
import Mfi.Lemmas.WorldTxL

namespace Mfi.Props.C02
open Mfi Mfi.Fx Mfi.Bank Mfi.Gen

/-! ### per-operation delta equality (proofs in Mfi/Lemmas/DeltaL.lean, shared with the whole-instruction ledger) -/

/-- **increase: same delta on both books** -/
theorem increase_delta_eq {b0 b' : Bank} {x0 x' : Balance} {now delta : Int} {t : IncType}
    (h : increaseBalance b0 x0 now delta t = .ok (b', x')) :
    b'.sa - b0.sa = x'.a - x0.a ∧ b'.sl - b0.sl = x'.l - x0.l := Mfi.DeltaL.increase_delta_eq h

/-- **decrease: same delta on both books** -/
theorem decrease_delta_eq {b0 b' : Bank} {x0 x' : Balance} {now delta : Int} {t : DecType}
    (h : decreaseBalance b0 x0 now delta t = .ok (b', x')) :
    b'.sa - b0.sa = x'.a - x0.a ∧ b'.sl - b0.sl = x'.l - x0.l := Mfi.DeltaL.decrease_delta_eq h

/-- **withdraw_all**: the bank's deposit total falls by exactly the position's deposit shares; the
    position's (dust) liability shares are abandoned: the bank's debt total is unchanged. -/
theorem withdraw_all_delta {b0 b' : Bank} {x0 x' : Balance} {now amt : Int}
    (h : withdrawAll b0 x0 now = .ok (b', x', amt)) :
    b'.sa = b0.sa - x0.a ∧ b'.sl = b0.sl ∧ x'.a = 0 ∧ x'.l = 0 ∧
    b'.asv = b0.asv ∧ b'.lsv = b0.lsv := Mfi.DeltaL.withdraw_all_delta h

/-- **repay_all** -/
theorem repay_all_delta {b0 b' : Bank} {x0 x' : Balance} {now amt : Int}
    (h : repayAll b0 x0 now = .ok (b', x', amt)) :
    b'.sl = b0.sl - x0.l ∧ b'.sa = b0.sa ∧ x'.a = 0 ∧ x'.l = 0 ∧
    b'.asv = b0.asv ∧ b'.lsv = b0.lsv := Mfi.DeltaL.repay_all_delta h

/-- **close_balance**: bank totals untouched, both (dust) sides of the position abandoned; the code
    checked that each side is worth less than ZERO_AMOUNT_THRESHOLD. -/
theorem close_balance_delta {b0 b' : Bank} {x0 x' : Balance} {now : Int}
    (h : closeBalanceOp b0 x0 now = .ok (b', x')) :
    b'.sa = b0.sa ∧ b'.sl = b0.sl ∧ x'.a = 0 ∧ x'.l = 0 ∧ b'.asv = b0.asv ∧ b'.lsv = b0.lsv ∧
    (∃ curA curL, assetAmount b0 x0.a = .ok curA ∧ liabAmount b0 x0.l = .ok curL ∧
      isZeroTol curA ZERO_AMOUNT_THRESHOLD = true ∧ isZeroTol curL ZERO_AMOUNT_THRESHOLD = true) := Mfi.DeltaL.close_balance_delta h

/-! ### the ledger of one bank over arbitrary histories -/

structure Ledger where
  bank : Bank
  bals : List Balance       -- every account's position in this bank
  dustA : Int               -- ghost: deposit shares abandoned by closed positions
  dustL : Int               -- ghost: liability shares abandoned by closed positions

inductive Op
  | open_                                   -- find_or_create: a fresh empty position
  | inc (i : Nat) (delta : Int) (t : IncType)   -- deposit / repay / liquidation credit …
  | dec (i : Nat) (delta : Int) (t : DecType)   -- withdraw / borrow / liquidation debit …
  | wdAll (i : Nat)
  | repAll (i : Nat)
  | close (i : Nat)

def sumA (l : List Balance) : Int := (l.map (·.a)).sum
def sumL (l : List Balance) : Int := (l.map (·.l)).sum

def fresh : Balance := { active := true, tag := 0, a := 0, l := 0, emis := 0, lastUpdate := 0 }

/-- a failing operation aborts and leaves the ledger unchanged -/
def step (L : Ledger) (now : Int) (op : Op) : Ledger :=
  match op with
  | .open_ => { L with bals := L.bals ++ [fresh] }
  | .inc i d t =>
    match L.bals[i]? with
    | none => L
    | some x => match increaseBalance L.bank x now d t with
      | .ok (b', x') => { L with bank := b', bals := L.bals.set i x' }
      | .error _ => L
  | .dec i d t =>
    match L.bals[i]? with
    | none => L
    | some x => match decreaseBalance L.bank x now d t with
      | .ok (b', x') => { L with bank := b', bals := L.bals.set i x' }
      | .error _ => L
  | .wdAll i =>
    match L.bals[i]? with
    | none => L
    | some x => match withdrawAll L.bank x now with
      | .ok (b', x', _) => { L with bank := b', bals := L.bals.set i x', dustL := L.dustL + x.l }
      | .error _ => L
  | .repAll i =>
    match L.bals[i]? with
    | none => L
    | some x => match repayAll L.bank x now with
      | .ok (b', x', _) => { L with bank := b', bals := L.bals.set i x', dustA := L.dustA + x.a }
      | .error _ => L
  | .close i =>
    match L.bals[i]? with
    | none => L
    | some x => match closeBalanceOp L.bank x now with
      | .ok (b', x') => { L with bank := b', bals := L.bals.set i x', dustA := L.dustA + x.a, dustL := L.dustL + x.l }
      | .error _ => L

def run (L : Ledger) (ops : List (Int × Op)) : Ledger := ops.foldl (fun L p => step L p.1 p.2) L

/-- the ledger invariant: totals = Σ positions + non-negative abandoned dust; shares non-negative;
    share values positive -/
structure Inv (L : Ledger) : Prop where
  totalA : L.bank.sa = sumA L.bals + L.dustA
  totalL : L.bank.sl = sumL L.bals + L.dustL
  dustA0 : 0 ≤ L.dustA
  dustL0 : 0 ≤ L.dustL
  nonneg : ∀ x ∈ L.bals, 0 ≤ x.a ∧ 0 ≤ x.l
  svpos : 0 < L.bank.asv ∧ 0 < L.bank.lsv

theorem sumA_set (l : List Balance) (i : Nat) (x x' : Balance) (h : l[i]? = some x) :
    sumA (l.set i x') = sumA l - x.a + x'.a := by
  induction l generalizing i with
  | nil => simp at h
  | cons y ys ih =>
    cases i with
    | zero =>
      simp only [List.getElem?_cons_zero, Option.some.injEq] at h
      subst h
      simp [sumA]; omega
    | succ j =>
      simp only [List.getElem?_cons_succ] at h
      have := ih j h
      simp only [sumA, List.set_cons_succ, List.map_cons, List.sum_cons] at this ⊢
      omega

theorem sumL_set (l : List Balance) (i : Nat) (x x' : Balance) (h : l[i]? = some x) :
    sumL (l.set i x') = sumL l - x.l + x'.l := by
  induction l generalizing i with
  | nil => simp at h
  | cons y ys ih =>
    cases i with
    | zero =>
      simp only [List.getElem?_cons_zero, Option.some.injEq] at h
      subst h
      simp [sumL]; omega
    | succ j =>
      simp only [List.getElem?_cons_succ] at h
      have := ih j h
      simp only [sumL, List.set_cons_succ, List.map_cons, List.sum_cons] at this ⊢
      omega

theorem mem_of_get {l : List Balance} {i : Nat} {x : Balance} (h : l[i]? = some x) : x ∈ l := by
  exact List.mem_of_getElem? h

theorem nonneg_set {l : List Balance} {i : Nat} {x' : Balance}
    (hall : ∀ x ∈ l, 0 ≤ x.a ∧ 0 ≤ x.l) (hx : 0 ≤ x'.a ∧ 0 ≤ x'.l) :
    ∀ y ∈ l.set i x', 0 ≤ y.a ∧ 0 ≤ y.l := by
  intro y hy
  rcases List.mem_or_eq_of_mem_set hy with h | h
  · exact hall y h
  · rw [h]; exact hx

/-- amounts submitted by instructions are unsigned -/
def opNonneg : Op → Prop
  | .inc _ d _ => 0 ≤ d
  | .dec _ d _ => 0 ≤ d
  | _ => True

theorem inv_step (L : Ledger) (now : Int) (op : Op) (hi : Inv L) (hop : opNonneg op) : Inv (step L now op) := by
  obtain ⟨hA, hL, dA, dL, hn, hsv⟩ := hi
  cases op with
  | open_ =>
    refine ⟨?_, ?_, dA, dL, ?_, hsv⟩
    · simp [step, sumA, fresh] at *; omega
    · simp [step, sumL, fresh] at *; omega
    · intro x hx
      simp only [step, List.mem_append, List.mem_singleton] at hx
      rcases hx with hx | hx
      · exact hn x hx
      · rw [hx]; simp [fresh]
  | inc i d t =>
    simp only [step]
    cases hget : L.bals[i]? with
    | none => exact ⟨hA, hL, dA, dL, hn, hsv⟩
    | some x =>
      simp only
      cases hres : increaseBalance L.bank x now d t with
      | error e => exact ⟨hA, hL, dA, dL, hn, hsv⟩
      | ok r =>
        obtain ⟨b', x'⟩ := r
        simp only
        have hx := hn x (mem_of_get hget)
        have hd := increase_delta_eq hres
        have sv := Mfi.Props.C03.inc_sv hres
        have nn := Mfi.Props.C03.inc_nonneg hres hop hsv.1 hsv.2 hx.1 hx.2
        refine ⟨?_, ?_, dA, dL, nonneg_set hn nn, by rw [sv.1, sv.2]; exact hsv⟩
        · simp only; rw [sumA_set _ _ _ _ hget]; omega
        · simp only; rw [sumL_set _ _ _ _ hget]; omega
  | dec i d t =>
    simp only [step]
    cases hget : L.bals[i]? with
    | none => exact ⟨hA, hL, dA, dL, hn, hsv⟩
    | some x =>
      simp only
      cases hres : decreaseBalance L.bank x now d t with
      | error e => exact ⟨hA, hL, dA, dL, hn, hsv⟩
      | ok r =>
        obtain ⟨b', x'⟩ := r
        simp only
        have hx := hn x (mem_of_get hget)
        have hd := decrease_delta_eq hres
        have sv := Mfi.Props.C03.dec_sv hres
        have nn := Mfi.Props.C03.dec_nonneg hres hop hsv.1 hsv.2 hx.1 hx.2
        refine ⟨?_, ?_, dA, dL, nonneg_set hn nn, by rw [sv.1, sv.2]; exact hsv⟩
        · simp only; rw [sumA_set _ _ _ _ hget]; omega
        · simp only; rw [sumL_set _ _ _ _ hget]; omega
  | wdAll i =>
    simp only [step]
    cases hget : L.bals[i]? with
    | none => exact ⟨hA, hL, dA, dL, hn, hsv⟩
    | some x =>
      simp only
      cases hres : withdrawAll L.bank x now with
      | error e => exact ⟨hA, hL, dA, dL, hn, hsv⟩
      | ok r =>
        obtain ⟨b', x', amt⟩ := r
        simp only
        have hx := hn x (mem_of_get hget)
        obtain ⟨h1, h2, h3, h4, h5, h6⟩ := withdraw_all_delta hres
        refine ⟨?_, ?_, dA, by simp only; omega, nonneg_set hn (by omega), by rw [h5, h6]; exact hsv⟩
        · simp only; rw [sumA_set _ _ _ _ hget]; omega
        · simp only; rw [sumL_set _ _ _ _ hget]; omega
  | repAll i =>
    simp only [step]
    cases hget : L.bals[i]? with
    | none => exact ⟨hA, hL, dA, dL, hn, hsv⟩
    | some x =>
      simp only
      cases hres : repayAll L.bank x now with
      | error e => exact ⟨hA, hL, dA, dL, hn, hsv⟩
      | ok r =>
        obtain ⟨b', x', amt⟩ := r
        simp only
        have hx := hn x (mem_of_get hget)
        obtain ⟨h1, h2, h3, h4, h5, h6⟩ := repay_all_delta hres
        refine ⟨?_, ?_, by simp only; omega, dL, nonneg_set hn (by omega), by rw [h5, h6]; exact hsv⟩
        · simp only; rw [sumA_set _ _ _ _ hget]; omega
        · simp only; rw [sumL_set _ _ _ _ hget]; omega
  | close i =>
    simp only [step]
    cases hget : L.bals[i]? with
    | none => exact ⟨hA, hL, dA, dL, hn, hsv⟩
    | some x =>
      simp only
      cases hres : closeBalanceOp L.bank x now with
      | error e => exact ⟨hA, hL, dA, dL, hn, hsv⟩
      | ok r =>
        obtain ⟨b', x'⟩ := r
        simp only
        have hx := hn x (mem_of_get hget)
        obtain ⟨h1, h2, h3, h4, h5, h6, _⟩ := close_balance_delta hres
        refine ⟨?_, ?_, by simp only; omega, by simp only; omega, nonneg_set hn (by omega), by rw [h5, h6]; exact hsv⟩
        · simp only; rw [sumA_set _ _ _ _ hget]; omega
        · simp only; rw [sumL_set _ _ _ _ hget]; omega

/-- **ledger_inv**: over EVERY history of position openings, deposits, repayments, withdrawals,
    borrows, liquidation legs, full withdrawals/repayments and balance closures by any number of
    accounts, the bank's totals equal the sum of all positions plus the non-negative dust that
    closures abandoned. -/
theorem ledger_inv (ops : List (Int × Op)) : ∀ (L : Ledger), Inv L → (∀ p ∈ ops, opNonneg p.2) → Inv (run L ops) := by
  induction ops with
  | nil => intro L hi _; exact hi
  | cons p rest ih =>
    intro L hi hn
    simp only [run, List.foldl_cons]
    exact ih _ (inv_step L p.1 p.2 hi (hn p (List.mem_cons_self ..))) (fun q hq => hn q (List.mem_cons_of_mem _ hq))

/-- totals dominate every single position -/
theorem position_le_total {L : Ledger} (hi : Inv L) {x : Balance} (hx : x ∈ L.bals) :
    x.a ≤ L.bank.sa ∧ x.l ≤ L.bank.sl := by
  have hA : x.a ≤ sumA L.bals := by
    have : ∀ (l : List Balance), (∀ y ∈ l, 0 ≤ y.a ∧ 0 ≤ y.l) → x ∈ l → x.a ≤ sumA l := by
      intro l
      induction l with
      | nil => intro _ h; cases h
      | cons y ys ih =>
        intro hall hmem
        simp only [sumA, List.map_cons, List.sum_cons]
        rcases List.mem_cons.1 hmem with h | h
        · subst h
          have : 0 ≤ (ys.map (·.a)).sum := by
            apply List.sum_nonneg
            intro z hz
            obtain ⟨w, hw, rfl⟩ := List.mem_map.1 hz
            exact (hall w (List.mem_cons_of_mem _ hw)).1
          omega
        · have := ih (fun z hz => hall z (List.mem_cons_of_mem _ hz)) h
          have := (hall y (List.mem_cons_self ..)).1
          simp only [sumA] at *
          omega
    exact this L.bals hi.nonneg hx
  have hL : x.l ≤ sumL L.bals := by
    have : ∀ (l : List Balance), (∀ y ∈ l, 0 ≤ y.a ∧ 0 ≤ y.l) → x ∈ l → x.l ≤ sumL l := by
      intro l
      induction l with
      | nil => intro _ h; cases h
      | cons y ys ih =>
        intro hall hmem
        simp only [sumL, List.map_cons, List.sum_cons]
        rcases List.mem_cons.1 hmem with h | h
        · subst h
          have : 0 ≤ (ys.map (·.l)).sum := by
            apply List.sum_nonneg
            intro z hz
            obtain ⟨w, hw, rfl⟩ := List.mem_map.1 hz
            exact (hall w (List.mem_cons_of_mem _ hw)).2
          omega
        · have := ih (fun z hz => hall z (List.mem_cons_of_mem _ hz)) h
          have := (hall y (List.mem_cons_self ..)).2
          simp only [sumL] at *
          omega
    exact this L.bals hi.nonneg hx
  have := hi.totalA; have := hi.totalL; have := hi.dustA0; have := hi.dustL0
  omega

/-- **close_bank_only_dust**: `lending_pool_close_bank` requires both share totals to be
    zero-with-tolerance; in every reachable ledger this forces EVERY account's position in the bank
    below the same threshold — a bank can only be closed when nobody holds more than dust in it. -/
theorem close_bank_only_dust {L : Ledger} (hi : Inv L)
    (hc : isZeroTol L.bank.sa ZERO_AMOUNT_THRESHOLD = true ∧ isZeroTol L.bank.sl ZERO_AMOUNT_THRESHOLD = true) :
    ∀ x ∈ L.bals, x.a < ZERO_AMOUNT_THRESHOLD ∧ x.l < ZERO_AMOUNT_THRESHOLD := by
  intro x hx
  have := position_le_total hi hx
  have habs : ∀ v t : Int, Fx.abs v < t → v < t := by
    intro v t h; unfold Fx.abs at h; split at h <;> omega
  simp only [isZeroTol, decide_eq_true_eq] at hc
  have h1 := habs _ _ hc.1
  have h2 := habs _ _ hc.2
  constructor <;> omega

/-- what the real `lending_pool_close_bank` demands (model Ix.closeBank, diffed against the real instruction through
    dispatch: ix.closebank lines): closable by version, no open position counted on either side, both share totals and the
    unclaimed emissions zero within the tolerance -/
theorem close_bank_requires {b : Bank} (h : Mfi.Ix.closeBank b = .ok ()) :
    b.flags &&& CLOSE_ENABLED_FLAG.toNat ≠ 0 ∧ b.lendCnt = 0 ∧ b.borrowCnt = 0 ∧
    isZeroTol b.sa ZERO_AMOUNT_THRESHOLD = true ∧ isZeroTol b.sl ZERO_AMOUNT_THRESHOLD = true ∧
    isZeroTol b.emissionsRemaining ZERO_AMOUNT_THRESHOLD = true := by
  unfold Mfi.Ix.closeBank at h
  split at h
  · simp [merr] at h
  rename_i h1
  split at h
  · simp [merr] at h
  rename_i h2
  split at h
  · simp [merr] at h
  rename_i h3
  split at h
  · simp [merr] at h
  rename_i h4
  simp at h2 h3 h4
  exact ⟨h1, h2.1, h2.2, h3.1, h3.2, h4⟩

/-- **a bank can only be closed when no account holds more than dust in it**: the instruction's own test, in any ledger
    reachable by the operations of this file -/
theorem closed_bank_holds_only_dust {L : Ledger} (hi : Inv L) (h : Mfi.Ix.closeBank L.bank = .ok ()) :
    ∀ x ∈ L.bals, x.a < ZERO_AMOUNT_THRESHOLD ∧ x.l < ZERO_AMOUNT_THRESHOLD :=
  close_bank_only_dust hi ⟨(close_bank_requires h).2.2.2.1, (close_bank_requires h).2.2.2.2.1⟩

/-! ### the numbers of the property text (constants regenerated from the real crates on every run) -/

/-- "sub-0.0001-unit dust": the tolerance every closure tests against is 0.0001 of a native unit to the last bit of
    I80F48 (⌊2^48 / 10000⌋), and a position counts as empty below ONE share -/
theorem dust_is_a_ten_thousandth :
    Mfi.Gen.ZERO_AMOUNT_THRESHOLD * 10000 ≤ Mfi.Fx.ONE ∧ Mfi.Fx.ONE < (Mfi.Gen.ZERO_AMOUNT_THRESHOLD + 1) * 10000 ∧
    Mfi.Gen.EMPTY_BALANCE_THRESHOLD = Mfi.Fx.ONE := by decide

/-- **purge_spec**: the risk admin's purge of a lender position in a sunset bank closes the position, lowers the bank's
    deposit total by EXACTLY the position's deposit shares, leaves the debt total alone — and is accepted only when the
    position's debt residue is worth less than the 0.0001-unit dust threshold at the current share value (so what it
    abandons in the debt total is dust, like every other closure). -/
theorem purge_spec {b b' : Bank} {x : Balance} {x' : Option Balance} {t : Int}
    (h : Mfi.Ix.purge b (some x) = .ok (b', x', t)) :
    ∃ la, liabAmount b x.l = .ok la ∧ Fx.abs la < ZERO_AMOUNT_THRESHOLD ∧
      b'.sa = b.sa - x.a ∧ b'.sl = b.sl ∧ b'.asv = b.asv ∧ b'.lsv = b.lsv ∧
      x' = some emptyDeactivated ∧ t = 0 := by
  unfold Mfi.Ix.purge at h
  simp only at h
  obtain ⟨la, hla, h⟩ := Res.bind_ok h
  split at h
  · simp [merr] at h
  rename_i hthr
  obtain ⟨xc, hxc, h⟩ := Res.bind_ok h
  obtain ⟨b2, hb2, h⟩ := Res.bind_ok h
  injection h with h; injection h with hb h; injection h with hx ht
  have hclose : xc = emptyDeactivated := by
    unfold closeBalance at hxc
    simp at hxc
    exact hxc.symm
  obtain ⟨e2, _, _⟩ := changeAsset_frame hb2
  subst hb
  refine ⟨la, hla, by omega, ?_, ?_, ?_, ?_, ?_, ht.symm⟩
  · rw [e2]; simp; omega
  · rw [e2]
  · rw [e2]
  · rw [e2]
  · rw [← hx, hclose]

/-! ### venue-backed banks (Kamino): what marginfi makes of the venue's answer

  Model Mfi/Model/Venue.lean — the CPI into Kamino is a parameter: the model takes what marginfi reads before and after it
  (obligation collateral, intermediary vault balance) and says which outcomes it accepts, what it books and what it pays.
  Diffed against the REAL kamino_deposit / kamino_withdraw through dispatch by the `venue` family (Kamino itself is played by
  a stand-in in the harness's CPI dispatcher, which can be told to answer a few units off). -/
section venue
open Mfi.Ix Mfi.Venue

theorem withinOne_iff (a e : Int) : withinOne a e = true ↔ (a - e ≤ 1 ∧ e - a ≤ 1) := by
  unfold withinOne; simp

/-- **deposit**: an accepted Kamino deposit books exactly the collateral that arrived in the bank's obligation, that amount
    is within one unit of marginfi's own conversion of the deposit, and the bank total moves by exactly what the position moves -/
theorem kamino_deposit_spec {now expected pre post t : Int} {b b' : Bank} {bal : Option Balance} {x' : Option Balance}
    (h : kaminoDeposit now b bal expected pre post = .ok (b', x', t)) :
    t = post - pre ∧ 0 ≤ t ∧ t - expected ≤ 1 ∧ expected - t ≤ 1 ∧
    ∃ y, x' = some y ∧ b'.sa - b.sa = y.a - (bal.getD (freshBalance b now)).a ∧
                        b'.sl - b.sl = y.l - (bal.getD (freshBalance b now)).l := by
  unfold kaminoDeposit at h
  split at h
  · cases h
  · rename_i hlt
    split at h
    · cases h
    · rename_i hw
      have hw' : withinOne (post - pre) expected = true := by
        cases hwo : withinOne (post - pre) expected <;> simp_all
      obtain ⟨hw1, hw2⟩ := (withinOne_iff _ _).mp hw'
      obtain ⟨r, hr, h⟩ := Res.bind_ok h
      injection h with h
      injection h with hb hrest
      injection hrest with hx ht
      subst hb; subst hx; subst ht
      have hd := increase_delta_eq (b0 := b) (x0 := bal.getD (freshBalance b now)) (b' := r.1) (x' := r.2)
        (now := now) (delta := ofInt (post - pre)) (t := .depositOnly) (by rw [hr])
      exact ⟨rfl, by omega, hw1, hw2, r.2, rfl, hd.1, hd.2⟩

/-- **a venue that credits something else than announced is refused**: when the obligation's collateral moved by an amount
    two or more units away from marginfi's own conversion, the deposit is not accepted (nothing is booked) -/
theorem kamino_deposit_rejects_misreport {now expected pre post : Int} {b : Bank} {bal : Option Balance}
    (hm : 1 < (post - pre) - expected ∨ 1 < expected - (post - pre)) :
    ∀ o, kaminoDeposit now b bal expected pre post ≠ .ok o := by
  intro o h
  obtain ⟨b', x', t⟩ := o
  obtain ⟨ht, _, h1, h2, _⟩ := kamino_deposit_spec h
  omega

/-- **withdraw**: an accepted Kamino withdrawal took exactly the collateral out of the obligation that the position gave up,
    paid the user exactly what arrived in the intermediary vault, and that amount is within one unit of marginfi's own
    conversion of the collateral; a partial withdrawal moves the bank total by what the position moves, a full one removes
    exactly the position's shares -/
theorem kamino_withdraw_spec {now amount obPre obPost vPre vPost : Int} {all : Bool} {expectedOf : Int → Int}
    {b : Bank} {x : Balance} {o : WOut}
    (h : kaminoWithdraw now b (some x) amount all expectedOf obPre obPost vPre vPost = .ok o) :
    obPre - obPost = o.collateral ∧ o.paid = vPost - vPre ∧ 0 ≤ o.paid ∧
    o.paid - expectedOf o.collateral ≤ 1 ∧ expectedOf o.collateral - o.paid ≤ 1 ∧
    (all = false → o.collateral = amount ∧ o.bank.sa - b.sa = o.bal.a - x.a ∧ o.bank.sl - b.sl = o.bal.l - x.l) ∧
    (all = true → o.bank.sa = b.sa - x.a ∧ o.bal.a = 0 ∧ o.bal.l = 0) := by
  unfold kaminoWithdraw at h
  simp only at h
  obtain ⟨⟨b1, x1, c⟩, hstep, h⟩ := Res.bind_ok h
  simp only at h
  split at h
  · cases h
  · split at h
    · cases h
    · rename_i hc
      split at h
      · cases h
      · split at h
        · cases h
        · rename_i hw
          have hw' : withinOne (vPost - vPre) (expectedOf c) = true := by
            cases hwo : withinOne (vPost - vPre) (expectedOf c) <;> simp_all
          obtain ⟨hw1, hw2⟩ := (withinOne_iff _ _).mp hw'
          injection h with h
          subst h
          have hc' : obPre - obPost = c := by omega
          refine ⟨hc', rfl, (by show (0 : Int) ≤ vPost - vPre; omega), hw1, hw2, ?_, ?_⟩
          · intro ha
            subst ha
            simp only [Bool.false_eq_true, ↓reduceIte] at hstep
            cases hd : decreaseBalance b x now (ofInt amount) .withdrawOnly with
            | error e => rw [hd] at hstep; cases hstep
            | ok p =>
              rw [hd] at hstep
              simp only [Except.map] at hstep
              injection hstep with hstep
              injection hstep with e1 e2
              injection e2 with e2 e3
              subst e1; subst e2; subst e3
              have := decrease_delta_eq (b0 := b) (x0 := x) (b' := p.1) (x' := p.2) (now := now)
                (delta := ofInt amount) (t := .withdrawOnly) (by rw [hd])
              exact ⟨rfl, this.1, this.2⟩
          · intro ha
            subst ha
            simp only [↓reduceIte] at hstep
            have := withdraw_all_delta hstep
            exact ⟨this.1, this.2.2.1, this.2.2.2.1⟩

/-- **a venue that takes another amount of collateral than asked is refused** -/
theorem kamino_withdraw_rejects_wrong_collateral {now amount obPre obPost vPre vPost : Int} {all : Bool}
    {expectedOf : Int → Int} {b : Bank} {x : Balance} {o : WOut}
    (h : kaminoWithdraw now b (some x) amount all expectedOf obPre obPost vPre vPost = .ok o) (hna : all = false) :
    obPre - obPost = amount := by
  obtain ⟨h1, _, _, _, _, h6, _⟩ := kamino_withdraw_spec h
  rw [h1, (h6 hna).1]


end venue

section whole_instructions
open Mfi Mfi.World Mfi.Gen Mfi.Gen.Acc

/-! ### whole instructions, whole protocol (Mfi/Model/World.lean)

The ledger theorems above speak about wrapper operations on one bank. These lift them to the five WHOLE user instructions —
account checks, gates, accrual, `find_or_create` on the 16-slot array, the write-back, `sort_balances`, the health check —
executed by any signers on any number of margin accounts and banks in any order. -/

/-- **world_instruction_ledger_step**: a successful whole instruction changes the operated bank's share totals by exactly
    what the account's slot array gains or loses in that bank — plus, for a complete withdrawal / complete repayment /
    balance closure, the other-side residue of the closed position, which is abandoned — and leaves the account's holdings
    in every other bank untouched, although it may have opened a slot, rewritten one and re-sorted the whole array. -/
theorem world_instruction_ledger_step (c : Ctx) :
    (∀ amt up o, World.deposit c amt up = .ok o → LedgerStep c o 0 0) ∧
    (∀ amt o, World.borrow c amt = .ok o → LedgerStep c o 0 0) ∧
    (∀ amt all o, World.withdraw c amt all = .ok o → LedgerStep c o 0 (if all then (slotOf c.a c.b.key).l else 0)) ∧
    (∀ amt all o, World.repay c amt all = .ok o → LedgerStep c o (if all then (slotOf c.a c.b.key).a else 0) 0) ∧
    (∀ o, World.closeBalance c = .ok o → LedgerStep c o (slotOf c.a c.b.key).a (slotOf c.a c.b.key).l) :=
  ⟨fun _ _ _ h => deposit_ledger h, fun _ _ h => borrow_ledger h, fun _ _ _ h => withdraw_ledger h,
   fun _ _ _ h => repay_ledger h, fun _ h => close_ledger h⟩

/-- **world_liquidation_and_bankruptcy_ledger_step**: a successful classic liquidation moves each of the two banks' share
    totals by exactly what the liquidator's and the liquidatee's slot arrays gain or lose in that bank (four balance moves on
    two arrays, slots opened on the liquidator's side, the liquidator's array re-sorted), abandons nothing and touches neither
    account's holdings in any third bank; a successful bankruptcy settlement moves the bank's totals by exactly what the
    bankrupt position moves (the loss socialisation changes the deposit SHARE VALUE, never a share count). -/
theorem world_liquidation_and_bankruptcy_ledger_step :
    (∀ (c : LiqCtx) amount o, World.liquidate c amount = .ok o → LedgerStep2 c o) ∧
    (∀ (c : Ctx) available o, World.bankruptcy c available = .ok o → LedgerStepG c.b.key c.a.slots o.slots c.b.books o.books 0 0) :=
  ⟨fun _ _ _ h => liquidate_ledger h, fun _ _ _ h => bankruptcy_ledger h⟩

/-- **world_ledger_history**: over EVERY history of whole instructions (deposits, withdrawals, borrows, repayments, balance
    closures, classic liquidations between any two accounts over any two banks, bankruptcy settlements — by any signer on any
    account and bank, with any arguments, refused ones rolled back, the clock advancing in between) in a world of any number of accounts and banks with distinct keys, every bank's share totals equal the sum
    over all accounts of the shares their slot arrays hold in it, plus the dust that closures abandoned there. -/
theorem world_ledger_history (w : WState) (ops : List WOp) (h : WInv w) : WInv (w.run ops) := run_inv ops w h

/-- **world_ledger_over_transactions**: … and over every sequence of TRANSACTIONS of the world state machine (whole instructions and
    flash-loan brackets, executed atomically: a refused instruction rolls its whole transaction back): inside a flash loan the
    health checks are skipped, the bookkeeping is not -/
theorem world_ledger_over_transactions (w : WState) (txs : List (List TOp)) (h : WInv w) : WInv (w.runTxs txs) := runTxs_inv txs w h

/-- an empty world satisfies the invariant (so does every world reached from it: non-vacuity of the history theorem) -/
theorem world_ledger_initial (now : Int) (g : GroupV) (banks : List WBank) (n : Nat)
    (hk : ∀ (i j : Nat) (bi bj : WBank), banks[i]? = some bi → banks[j]? = some bj → i ≠ j → bi.v.key ≠ bj.v.key)
    (h0 : ∀ b ∈ banks, b.v.books.sa = 0 ∧ b.v.books.sl = 0) (group authority : Nat) :
    WInv { now, g, banks, dustA := fun _ => 0, dustL := fun _ => 0,
           accts := List.replicate n { key := 0, group, authority, flags := 0, slots := List.replicate 16 Account.emptySlot } } := by
  have hz : ∀ k, posA k (List.replicate 16 Account.emptySlot) = 0 ∧ posL k (List.replicate 16 Account.emptySlot) = 0 := by
    intro k; constructor <;> simp [posA, posL, Account.emptySlot, List.replicate, List.filter]
  refine ⟨hk, ?_, ?_⟩
  · intro j b hb
    have hm := List.mem_of_getElem? hb
    rw [(h0 b hm).1]
    simp only [List.map_replicate, (hz b.v.key).1]
    induction n with
    | zero => simp
    | succ n ih => simp [List.replicate_succ]
  · intro j b hb
    have hm := List.mem_of_getElem? hb
    rw [(h0 b hm).2]
    simp only [List.map_replicate, (hz b.v.key).2]
    induction n with
    | zero => simp
    | succ n ih => simp [List.replicate_succ]

end whole_instructions

section whole_instructions
open Mfi Mfi.Fx Mfi.Bank Mfi.Gen Mfi.Venue Mfi.Ix

/-! ### Solend and Drift venue banks at instruction level (Mfi/Model/Venue.lean) -/

/-- **solend deposit**: an accepted Solend deposit books exactly the collateral that arrived in the bank's obligation, within
    one unit of marginfi's own conversion, and the bank total moves by exactly what the position moves -/
theorem solend_deposit_spec {now expected pre post t : Int} {b b' : Bank} {bal : Option Balance} {x' : Option Balance}
    (h : solendDeposit now b bal expected pre post = .ok (b', x', t)) :
    t = post - pre ∧ 0 ≤ t ∧ t - expected ≤ 1 ∧ expected - t ≤ 1 ∧
    ∃ y, x' = some y ∧ b'.sa - b.sa = y.a - (bal.getD (freshBalance b now)).a ∧
                        b'.sl - b.sl = y.l - (bal.getD (freshBalance b now)).l := by
  unfold solendDeposit at h
  split at h
  · cases h
  · rename_i hlt
    split at h
    · cases h
    · rename_i hw
      have hw' : withinOne (post - pre) expected = true := by
        cases hwo : withinOne (post - pre) expected <;> simp_all
      obtain ⟨hw1, hw2⟩ := (withinOne_iff _ _).mp hw'
      obtain ⟨r, hr, h⟩ := Res.bind_ok h
      injection h with h
      injection h with hb hrest
      injection hrest with hx ht
      subst hb; subst hx; subst ht
      have hd := increase_delta_eq (b0 := b) (x0 := bal.getD (freshBalance b now)) (b' := r.1) (x' := r.2)
        (now := now) (delta := ofInt (post - pre)) (t := .depositOnly) (by rw [hr])
      exact ⟨rfl, by omega, hw1, hw2, r.2, rfl, hd.1, hd.2⟩

/-- **solend withdraw**: an accepted Solend withdrawal debits the position by the collateral given up, `c`, while the
    obligation lost between `c - 1` and `c + 1` — the handler tolerates one unit either way, so the books and the
    obligation can drift apart by one unit of collateral per withdrawal (the backing of a Solend bank is exact only up to
    that tolerance); the user is paid exactly what arrived in the intermediary vault, within one unit of marginfi's own
    conversion of `c` -/
theorem solend_withdraw_spec {now amount obPre obPost vPre vPost : Int} {all : Bool} {expectedOf : Int → Int}
    {b : Bank} {x : Balance} {o : WOut}
    (h : solendWithdraw now b (some x) amount all expectedOf obPre obPost vPre vPost = .ok o) :
    (obPre - obPost) - o.collateral ≤ 1 ∧ o.collateral - (obPre - obPost) ≤ 1 ∧
    o.paid = vPost - vPre ∧ o.paid - expectedOf o.collateral ≤ 1 ∧ expectedOf o.collateral - o.paid ≤ 1 ∧
    (all = false → o.collateral = amount ∧ o.bank.sa - b.sa = o.bal.a - x.a) ∧
    (all = true → o.bank.sa = b.sa - x.a ∧ o.bal.a = 0) := by
  unfold solendWithdraw at h
  simp only at h
  obtain ⟨⟨b', x', c⟩, hcore, h⟩ := Res.bind_ok h
  dsimp only at h
  split at h
  · cases h
  · split at h
    · cases h
    · rename_i hw1
      split at h
      · cases h
      · split at h
        · cases h
        · rename_i hw2
          injection h with h
          subst h
          have w1 : withinOne (obPre - obPost) c = true := by
            cases hwo : withinOne (obPre - obPost) c <;> simp_all
          have w2 : withinOne (vPost - vPre) (expectedOf c) = true := by
            cases hwo : withinOne (vPost - vPre) (expectedOf c) <;> simp_all
          obtain ⟨a1, a2⟩ := (withinOne_iff _ _).mp w1
          obtain ⟨a3, a4⟩ := (withinOne_iff _ _).mp w2
          refine ⟨a1, a2, rfl, a3, a4, ?_, ?_⟩
          · intro hall
            subst hall
            simp only [Bool.false_eq_true, if_false] at hcore
            cases hd : decreaseBalance b x now (ofInt amount) .withdrawOnly with
            | error e => simp [hd, Except.map] at hcore
            | ok p =>
              simp only [hd, Except.map] at hcore
              injection hcore with hcore
              injection hcore with e1 e2
              injection e2 with e2 e3
              subst e1; subst e2; subst e3
              exact ⟨rfl, (decrease_delta_eq hd).1⟩
          · intro hall
            subst hall
            simp only [if_true] at hcore
            obtain ⟨e1, _, e3, _⟩ := withdraw_all_delta hcore
            exact ⟨e1, e3⟩

/-- **drift deposit**: an accepted Drift deposit books exactly the scaled balance the bank's Drift user gained, which is exactly
    what Drift's own increment formula announces for the amount; the bank total moves by what the position moves -/
theorem drift_deposit_spec {now amount dec cum pre post t : Int} {b b' : Bank} {bal : Option Balance} {x' : Option Balance}
    (h : driftDeposit now b bal amount dec cum pre post = .ok (b', x', t)) :
    t = post - pre ∧ Integr.scaledBalanceIncrement dec cum amount = some t ∧
    ∃ y, x' = some y ∧ b'.sa - b.sa = y.a - (bal.getD (freshBalance b now)).a ∧
                        b'.sl - b.sl = y.l - (bal.getD (freshBalance b now)).l := by
  unfold driftDeposit at h
  split at h
  · cases h
  · rename_i expected hexp
    split at h
    · cases h
    · split at h
      · cases h
      · rename_i _ heq
        have heq' : post - pre = expected := by
          by_contra hne; exact heq hne
        obtain ⟨r, hr, h⟩ := Res.bind_ok h
        injection h with h
        injection h with hb hrest
        injection hrest with hx ht
        subst hb; subst hx; subst ht
        have hd := increase_delta_eq (b0 := b) (x0 := bal.getD (freshBalance b now)) (b' := r.1) (x' := r.2)
          (now := now) (delta := ofInt (post - pre)) (t := .depositOnly) (by rw [hr])
        exact ⟨rfl, by rw [heq']; exact hexp, r.2, rfl, hd.1, hd.2⟩

end whole_instructions

end Mfi.Props.C02
