/-
  C18 — Every accepted interest curve is usable, bounded and non-decreasing.

  Theorems about Mfi/Model/Interest.lean (diffed against the real InterestRateConfig::validate,
  InterestRateCalc::calc_interest_rate and calc_interest_rate_accrual_state_changes by the `curve`
  family). Quantification: every configuration (any number of points in the list, any u32 values)
  that `validate_seven_point` / `validate_legacy` accepts, every utilisation bit pattern.
-/
import Mfi.Model.Interest
import Mfi.Lemmas.FxL
import Mfi.Lemmas.ResL

namespace Mfi.Props.C18
open Mfi Mfi.Fx Mfi.Interest

theorem TEN_eq : TEN = 2814749767106560 := rfl

theorem subP_ok {a b : Int} (h0 : MIN ≤ a - b) (h1 : a - b ≤ MAX) : subP a b = .ok (a - b) := by
  simp [subP, (inRange_iff _).2 ⟨h0, h1⟩]
theorem addP_ok {a b : Int} (h0 : MIN ≤ a + b) (h1 : a + b ≤ MAX) : addP a b = .ok (a + b) := by
  simp [addP, (inRange_iff _).2 ⟨h0, h1⟩]

/-- the value `lerp` computes on a non-degenerate segment -/
def lerpVal (sx sy ex ey t : Int) : Int := sy + (ey - sy) * ((t - sx) * ONE / (ex - sx)) / ONE

theorem lerp_ok {sx sy ex ey t : Int} (hsx : 0 ≤ sx) (hst : sx ≤ t) (hte : t ≤ ex) (hex : ex ≤ ONE)
    (hsy : 0 ≤ sy) (hy : sy ≤ ey) (hey : ey ≤ TEN) :
    lerp sx sy ex ey t = .ok (if ex ≤ sx then sy else lerpVal sx sy ex ey t) := by
  unfold lerp
  by_cases h1 : ex ≤ sx
  · simp [h1]
  · have hdx : 0 < ex - sx := by omega
    have hp := prop_bounds (off := t - sx) (dx := ex - sx) (by omega) (by omega) hdx
    have hs := frac_mul_bounds (d := ey - sy) (p := (t - sx) * ONE / (ex - sx)) (by omega) hp.1 hp.2
    simp only [ONE_eq, TEN_eq] at hp hs hex hey
    have e1 : subP ex sx = .ok (ex - sx) := subP_ok (by simp only [MIN_eq]; omega) (by simp only [MAX_eq]; omega)
    have e2 : subP t sx = .ok (t - sx) := subP_ok (by simp only [MIN_eq]; omega) (by simp only [MAX_eq]; omega)
    have e3 : subP ey sy = .ok (ey - sy) := subP_ok (by simp only [MIN_eq]; omega) (by simp only [MAX_eq]; omega)
    have e4 : wrap (Int.tdiv ((t - sx) * ONE) (ex - sx)) = (t - sx) * ONE / (ex - sx) := by
      rw [tdiv_nonneg (by simp only [ONE_eq]; omega)]
      exact wrap_id (by simp only [MIN_eq, ONE_eq]; omega) (by simp only [MAX_eq, ONE_eq]; omega)
    have e5 : mul? (ey - sy) ((t - sx) * ONE / (ex - sx)) = some ((ey - sy) * ((t - sx) * ONE / (ex - sx)) / ONE) :=
      mul?_eq (by simp only [MIN_eq, ONE_eq]; omega) (by simp only [MAX_eq, ONE_eq]; omega)
    have e6 : addP sy ((ey - sy) * ((t - sx) * ONE / (ex - sx)) / ONE)
        = .ok (sy + (ey - sy) * ((t - sx) * ONE / (ex - sx)) / ONE) :=
      addP_ok (by simp only [MIN_eq, ONE_eq]; omega) (by simp only [MAX_eq, ONE_eq]; omega)
    have h2 : ¬ t < sx := by omega
    have h3 : ¬ t > ex := by omega
    have h4 : ¬ ey < sy := by omega
    have h5 : ¬ (ex - sx = 0) := by omega
    simp only [h1, h2, h3, h4, ↓reduceIte, e1, e2, e3, e4, e5, e6, h5, Res.ofOpt, lerpVal, bind, Except.bind]


theorem lerpVal_bounds {sx sy ex ey t : Int} (hst : sx ≤ t) (hte : t ≤ ex) (hlt : sx < ex) (hy : sy ≤ ey) :
    sy ≤ lerpVal sx sy ex ey t ∧ lerpVal sx sy ex ey t ≤ ey := by
  have hp := prop_bounds (off := t - sx) (dx := ex - sx) (by omega) (by omega) (by omega)
  have hs := frac_mul_bounds (d := ey - sy) (p := (t - sx) * ONE / (ex - sx)) (by omega) hp.1 hp.2
  unfold lerpVal
  omega

theorem lerpVal_end {sx sy ex ey : Int} (hlt : sx < ex) : lerpVal sx sy ex ey ex = ey := by
  unfold lerpVal
  rw [prop_full (by omega), Int.mul_ediv_cancel _ (by decide)]
  omega

theorem lerpVal_start {sx sy ex ey : Int} : lerpVal sx sy ex ey sx = sy := by
  unfold lerpVal
  simp

theorem lerpVal_mono {sx sy ex ey t t' : Int} (hst : sx ≤ t) (htt : t ≤ t') (hlt : sx < ex) (hy : sy ≤ ey) :
    lerpVal sx sy ex ey t ≤ lerpVal sx sy ex ey t' := by
  unfold lerpVal
  have h1 : (t - sx) * ONE / (ex - sx) ≤ (t' - sx) * ONE / (ex - sx) :=
    Int.ediv_le_ediv (by omega) (by have := ONE_pos; nlinarith)
  have h2 : (ey - sy) * ((t - sx) * ONE / (ex - sx)) ≤ (ey - sy) * ((t' - sx) * ONE / (ex - sx)) :=
    mul_le_mul_of_nonneg_left h1 (by omega)
  have := Int.ediv_le_ediv ONE_pos h2
  omega

/-! ### u32 → fixed conversions -/

theorem U32MAX_eq : U32MAX = 4294967295 := rfl

theorem utilFromU32_eq {u : Int} (hu : 0 ≤ u) : utilFromU32 u = u * ONE / U32MAX := by
  unfold utilFromU32
  rw [tdiv_nonneg (by have := ONE_pos; positivity)]
  exact Int.mul_ediv_mul_of_pos_left _ _ ONE_pos

theorem rateFromU32_eq {r : Int} (hr : 0 ≤ r) : rateFromU32 r = 10 * (r * ONE / U32MAX) := by
  unfold rateFromU32 TEN
  rw [tdiv_nonneg (by have := ONE_pos; positivity), Int.mul_ediv_mul_of_pos_left _ _ ONE_pos]
  rw [← mul_assoc, Int.mul_ediv_cancel _ (by decide)]
  exact mul_comm _ _

theorem util_strict_mono {u v : Int} (hu : 0 ≤ u) (h : u < v) : utilFromU32 u < utilFromU32 v := by
  rw [utilFromU32_eq hu, utilFromU32_eq (by omega)]
  simp only [ONE_eq, U32MAX_eq]
  omega

theorem util_bounds {u : Int} (hu : 0 ≤ u) (h : u ≤ U32MAX) : 0 ≤ utilFromU32 u ∧ utilFromU32 u ≤ ONE := by
  rw [utilFromU32_eq hu]
  simp only [ONE_eq, U32MAX_eq] at *
  omega

theorem util_max : utilFromU32 U32MAX = ONE := by decide

theorem util_zero : utilFromU32 0 = 0 := by decide

theorem rate_mono {r s : Int} (hr : 0 ≤ r) (h : r ≤ s) : rateFromU32 r ≤ rateFromU32 s := by
  rw [rateFromU32_eq hr, rateFromU32_eq (by omega)]
  simp only [ONE_eq, U32MAX_eq]
  omega

theorem rate_bounds {r : Int} (hr : 0 ≤ r) (h : r ≤ U32MAX) : 0 ≤ rateFromU32 r ∧ rateFromU32 r ≤ TEN := by
  rw [rateFromU32_eq hr]
  simp only [ONE_eq, U32MAX_eq, TEN_eq] at *
  omega


/-! ### the multipoint curve -/

/-- Shape of the remaining point list relative to the previous used point (pu, pr), all as u32
    integers: points with util = 0 are skipped; used points have strictly increasing util
    (≤ u32::MAX) and non-decreasing rate, all ≤ hundred. This is what `validate_seven_point`
    establishes (theorem `validate_chain`). -/
def Chain (hundred : Int) : Int → Int → List Point → Prop
  | _, pr, [] => pr ≤ hundred
  | pu, pr, p :: rest =>
    (p.util = 0 ∧ Chain hundred pu pr rest) ∨
    (p.util ≠ 0 ∧ pu < p.util ∧ p.util < U32MAX ∧ pr ≤ p.rate ∧ Chain hundred p.util p.rate rest)

theorem chain_le (hundred : Int) : ∀ (l : List Point) (a b : Int), Chain hundred a b l → b ≤ hundred := by
  intro l
  induction l with
  | nil => intro a b h; exact h
  | cons q l ihl =>
    intro a b h
    simp only [Chain] at h
    rcases h with ⟨_, h⟩ | ⟨_, _, _, h1, h2⟩
    · exact ihl a b h
    · exact le_trans h1 (ihl _ _ h2)

/-- Core theorem about the loop: on a well-shaped point list, for every utilisation between the
    previous point and 100 %, the loop returns a rate, and that rate lies between the previous
    point's rate and the 100 % rate. -/
theorem loop_defined_bounded (hundred : Int) (hh : hundred ≤ U32MAX) :
    ∀ (pts : List Point) (pu pr ur : Int), Chain hundred pu pr pts → 0 ≤ pu → pu ≤ U32MAX → 0 ≤ pr →
      utilFromU32 pu ≤ ur → ur ≤ ONE →
      ∃ r, curveLoop pts (utilFromU32 pu) (rateFromU32 pr) (rateFromU32 hundred) ur = .ok r ∧
           rateFromU32 pr ≤ r ∧ r ≤ rateFromU32 hundred := by
  intro pts
  induction pts with
  | nil =>
    intro pu pr ur hc hpu0 hpu1 hpr hur0 hur1
    simp only [Chain] at hc
    simp only [curveLoop]
    have hub := util_bounds hpu0 hpu1
    have hr1 := rate_bounds hpr (by omega)
    have hr2 := rate_bounds (r := hundred) (by omega) hh
    have hm := rate_mono hpr hc
    rw [lerp_ok hub.1 hur0 hur1 (le_refl _) hr1.1 hm hr2.2]
    refine ⟨_, rfl, ?_⟩
    split
    · exact ⟨le_refl _, hm⟩
    · exact lerpVal_bounds hur0 hur1 (by omega) hm
  | cons p rest ih =>
    intro pu pr ur hc hpu0 hpu1 hpr hur0 hur1
    simp only [Chain] at hc
    simp only [curveLoop]
    rcases hc with ⟨hz, hc⟩ | ⟨hnz, hlt, hpm, hrr, hc⟩
    · simp only [hz, ↓reduceIte]
      exact ih pu pr ur hc hpu0 hpu1 hpr hur0 hur1
    · simp only [hnz, ↓reduceIte]
      have hub := util_bounds hpu0 hpu1
      have hub' := util_bounds (u := p.util) (by omega) (le_of_lt hpm)
      have hsm := util_strict_mono hpu0 hlt
      have hchainle : p.rate ≤ hundred := chain_le hundred rest p.util p.rate hc
      have hr1 := rate_bounds hpr (by omega)
      have hr2 := rate_bounds (r := p.rate) (by omega) (by omega)
      have hm := rate_mono hpr hrr
      by_cases hle : ur ≤ utilFromU32 p.util
      · simp only [hle, ↓reduceIte]
        rw [lerp_ok hub.1 hur0 hle hub'.2 hr1.1 hm hr2.2]
        refine ⟨_, rfl, ?_⟩
        have hb := lerpVal_bounds (sy := rateFromU32 pr) (ey := rateFromU32 p.rate) hur0 hle hsm hm
        have hph := rate_mono (r := p.rate) (s := hundred) (by omega) hchainle
        split
        · omega
        · omega
      · simp only [hle, ↓reduceIte]
        obtain ⟨r, hr, hb1, hb2⟩ := ih p.util p.rate ur hc (by omega) (le_of_lt hpm) (by omega) (by omega) hur1
        exact ⟨r, hr, by omega, hb2⟩


/-! ### what `validate_seven_point` establishes -/

def usedOf (pts : List Point) : List Point := pts.filter (fun p => p.util ≠ 0)

theorem collectUsed_eq : ∀ (pts : List Point) (seen : Bool) (acc used : List Point),
    collectUsed pts seen acc = some used →
    used = acc.reverse ++ usedOf pts ∧ ∀ p ∈ usedOf pts, p.util ≠ U32MAX := by
  intro pts
  induction pts with
  | nil => intro seen acc used h; simp [collectUsed] at h; simp [usedOf, h]
  | cons p rest ih =>
    intro seen acc used h
    simp only [collectUsed] at h
    by_cases hz : p.util = 0
    · simp only [hz, ↓reduceIte] at h
      split at h
      · cases h
      · have := ih _ _ _ h
        simp [usedOf, hz] at *
        exact this
    · simp only [hz, ↓reduceIte] at h
      split at h
      · cases h
      · split at h
        · cases h
        · rename_i hne
          have := ih _ _ _ h
          simp [usedOf, hz] at *
          exact ⟨this.1, hne, this.2⟩

def ascFrom : Int → Int → List Point → Prop
  | _, _, [] => True
  | pu, pr, p :: rest => pu < p.util ∧ pr ≤ p.rate ∧ ascFrom p.util p.rate rest

theorem ascending_ascFrom : ∀ (rest : List Point) (p : Point), ascending (p :: rest) = true →
    ascFrom p.util p.rate rest := by
  intro rest
  induction rest with
  | nil => intro p _; trivial
  | cons q rest ih =>
    intro p h
    simp only [ascending, Bool.and_eq_true, decide_eq_true_eq] at h
    exact ⟨h.1.1, h.1.2, ih q h.2⟩

theorem chain_of_ascFrom (hundred : Int) : ∀ (pts : List Point) (pu pr : Int),
    ascFrom pu pr (usedOf pts) → pr ≤ hundred →
    (∀ p ∈ usedOf pts, p.util < U32MAX ∧ p.rate ≤ hundred) → Chain hundred pu pr pts := by
  intro pts
  induction pts with
  | nil => intro pu pr _ h _; exact h
  | cons p rest ih =>
    intro pu pr ha hp hall
    simp only [Chain]
    by_cases hz : p.util = 0
    · left
      refine ⟨hz, ih pu pr ?_ hp ?_⟩
      · simpa [usedOf, hz] using ha
      · simpa [usedOf, hz] using hall
    · right
      have hu : usedOf (p :: rest) = p :: usedOf rest := by simp [usedOf, hz]
      rw [hu] at ha hall
      simp only [ascFrom] at ha
      have hp' := hall p (by simp)
      exact ⟨hz, ha.1, hp'.1, ha.2.1, ih _ _ ha.2.2 hp'.2 (fun q hq => hall q (by simp [hq]))⟩

/-- the u32 fields really are u32 (a fact about the Rust types, hypothesis of the theorems) -/
structure WF (c : IrCalc) : Prop where
  zero_nonneg : 0 ≤ c.zeroRate
  hundred_le : c.hundredRate ≤ U32MAX
  pts : ∀ p ∈ c.points, 0 ≤ p.util ∧ p.util ≤ U32MAX ∧ 0 ≤ p.rate

theorem validate_chain (c : IrCalc) (hw : WF c) (hv : validateSevenPoint c = true) :
    Chain c.hundredRate 0 c.zeroRate c.points ∧ c.zeroRate ≤ c.hundredRate := by
  unfold validateSevenPoint at hv
  split at hv
  · cases hv
  · rename_i used hcu
    obtain ⟨hused, hnomax⟩ := collectUsed_eq _ _ _ _ hcu
    simp only [List.reverse_nil, List.nil_append] at hused
    subst hused
    simp only [Bool.and_eq_true, decide_eq_true_eq, List.all_eq_true] at hv
    obtain ⟨⟨hasc, hzh⟩, hall⟩ := hv
    refine ⟨chain_of_ascFrom _ _ _ _ ?_ hzh ?_, hzh⟩
    · -- ascFrom 0 zero (usedOf pts)
      cases hu : usedOf c.points with
      | nil => trivial
      | cons p rest =>
        rw [hu] at hasc hall
        have hp := hall p (by simp)
        have hmem : p ∈ c.points := by
          have : p ∈ usedOf c.points := by rw [hu]; simp
          exact (List.mem_filter.1 this).1
        have hnz : p.util ≠ 0 := by
          have : p ∈ usedOf c.points := by rw [hu]; simp
          simpa using (List.mem_filter.1 this).2
        have := hw.pts p hmem
        exact ⟨by omega, hp.1, ascending_ascFrom rest p hasc⟩
    · intro p hp
      have hmem : p ∈ c.points := (List.mem_filter.1 hp).1
      have h1 := (hw.pts p hmem).2.1
      have h2 := hnomax p hp
      exact ⟨by omega, (hall p hp).2⟩

/-! ### C18 property theorems: seven-point curve -/

theorem clampUr_bounds (ur : Int) : 0 ≤ clampUr ur ∧ clampUr ur ≤ ONE := by
  unfold clampUr
  simp only [ONE_eq]
  omega

/-- **curve_defined / curve_bounded**: for every accepted seven-point configuration and EVERY
    utilisation (any I80F48 bit pattern, clamped by the code), the base rate is defined and lies
    between the configured zero-utilisation and full-utilisation rates. -/
theorem curve_defined_bounded (c : IrCalc) (hw : WF c) (hv : validateSevenPoint c = true) (ur : Int) :
    ∃ r, multipointCurve c ur = .ok r ∧ rateFromU32 c.zeroRate ≤ r ∧ r ≤ rateFromU32 c.hundredRate := by
  obtain ⟨hc, _⟩ := validate_chain c hw hv
  have hb := clampUr_bounds ur
  have := loop_defined_bounded c.hundredRate hw.hundred_le c.points 0 c.zeroRate (clampUr ur) hc
    (le_refl _) (by decide) hw.zero_nonneg (by rw [util_zero]; exact hb.1) hb.2
  rw [util_zero] at this
  exact this

/-- **curve_clamped**: utilisation below 0 / above 100 % gives the value at 0 / at 100 %. -/
theorem curve_clamped (c : IrCalc) (ur : Int) :
    multipointCurve c ur = multipointCurve c (clampUr ur) := by
  unfold multipointCurve
  have : clampUr (clampUr ur) = clampUr ur := by
    unfold clampUr; simp only [ONE_eq]; omega
  rw [this]


theorem chain_lt (hundred : Int) : ∀ (pts : List Point) (pu pr : Int), Chain hundred pu pr pts →
    ∀ q ∈ usedOf pts, pu < q.util ∧ q.util ≤ U32MAX := by
  intro pts
  induction pts with
  | nil => intro pu pr _ q hq; simp [usedOf] at hq
  | cons p rest ih =>
    intro pu pr hc q hq
    simp only [Chain] at hc
    rcases hc with ⟨hz, hc⟩ | ⟨hnz, hlt, hpm, _, hc⟩
    · have : usedOf (p :: rest) = usedOf rest := by simp [usedOf, hz]
      rw [this] at hq
      exact ih pu pr hc q hq
    · have : usedOf (p :: rest) = p :: usedOf rest := by simp [usedOf, hnz]
      rw [this] at hq
      simp only [List.mem_cons] at hq
      rcases hq with rfl | hq
      · exact ⟨hlt, le_of_lt hpm⟩
      · have := ih _ _ hc q hq
        exact ⟨by omega, this.2⟩

/-- the loop returns exactly the configured rate at each configured utilisation -/
theorem loop_hits_point (hundred : Int) (hh : hundred ≤ U32MAX) :
    ∀ (pts : List Point) (pu pr : Int), Chain hundred pu pr pts → 0 ≤ pu → pu ≤ U32MAX → 0 ≤ pr →
      ∀ q ∈ usedOf pts,
      curveLoop pts (utilFromU32 pu) (rateFromU32 pr) (rateFromU32 hundred) (utilFromU32 q.util)
        = .ok (rateFromU32 q.rate) := by
  intro pts
  induction pts with
  | nil => intro pu pr _ _ _ _ q hq; simp [usedOf] at hq
  | cons p rest ih =>
    intro pu pr hc hpu0 hpu1 hpr q hq
    have hlt_all := chain_lt hundred _ _ _ hc
    simp only [Chain] at hc
    simp only [curveLoop]
    rcases hc with ⟨hz, hc⟩ | ⟨hnz, hlt, hpm, hrr, hc⟩
    · simp only [hz, ↓reduceIte]
      have : usedOf (p :: rest) = usedOf rest := by simp [usedOf, hz]
      rw [this] at hq
      exact ih pu pr hc hpu0 hpu1 hpr q hq
    · simp only [hnz, ↓reduceIte]
      have hu : usedOf (p :: rest) = p :: usedOf rest := by simp [usedOf, hnz]
      rw [hu] at hq
      simp only [List.mem_cons] at hq
      have hchainle : p.rate ≤ hundred := chain_le hundred rest p.util p.rate hc
      rcases hq with rfl | hq
      · simp only [le_refl, ↓reduceIte]
        have hub := util_bounds hpu0 hpu1
        have hub' := util_bounds (u := q.util) (by omega) (le_of_lt hpm)
        have hsm := util_strict_mono hpu0 hlt
        have hr1 := rate_bounds hpr (by omega)
        have hr2 := rate_bounds (r := q.rate) (by omega) (by omega)
        have hm := rate_mono hpr hrr
        rw [lerp_ok hub.1 (le_of_lt hsm) (le_refl _) hub'.2 hr1.1 hm hr2.2]
        have : ¬ utilFromU32 q.util ≤ utilFromU32 pu := by omega
        simp only [this, ↓reduceIte, lerpVal_end hsm]
      · have hq' := chain_lt hundred _ _ _ hc q hq
        have hsm := util_strict_mono (u := p.util) (v := q.util) (by omega) hq'.1
        have : ¬ utilFromU32 q.util ≤ utilFromU32 p.util := by omega
        simp only [this, ↓reduceIte]
        exact ih p.util p.rate hc (by omega) (le_of_lt hpm) (by omega) q hq

/-- **curve_hits_points**: at the utilisation of each configured point the base rate is exactly
    that point's rate. -/
theorem curve_hits_points (c : IrCalc) (hw : WF c) (hv : validateSevenPoint c = true)
    (q : Point) (hq : q ∈ c.points) (hnz : q.util ≠ 0) :
    multipointCurve c (utilFromU32 q.util) = .ok (rateFromU32 q.rate) := by
  obtain ⟨hc, _⟩ := validate_chain c hw hv
  have hqw := hw.pts q hq
  have hb := util_bounds hqw.1 hqw.2.1
  have hcl : clampUr (utilFromU32 q.util) = utilFromU32 q.util := by
    unfold clampUr; simp only [ONE_eq] at *; omega
  unfold multipointCurve
  rw [hcl]
  have := loop_hits_point c.hundredRate hw.hundred_le c.points 0 c.zeroRate hc (le_refl _) (by decide)
    hw.zero_nonneg q (List.mem_filter.2 ⟨hq, by simpa using hnz⟩)
  rw [util_zero] at this
  exact this

/-- at utilisation 0 the loop returns the previous rate (used for `curve_hits_zero`) -/
theorem loop_at_start (hundred : Int) (hh : hundred ≤ U32MAX) :
    ∀ (pts : List Point) (pu pr : Int), Chain hundred pu pr pts → 0 ≤ pu → pu ≤ U32MAX → 0 ≤ pr →
      curveLoop pts (utilFromU32 pu) (rateFromU32 pr) (rateFromU32 hundred) (utilFromU32 pu)
        = .ok (rateFromU32 pr) := by
  intro pts
  induction pts with
  | nil =>
    intro pu pr hc hpu0 hpu1 hpr
    simp only [Chain] at hc
    simp only [curveLoop]
    have hub := util_bounds hpu0 hpu1
    have hr1 := rate_bounds hpr (by omega)
    have hr2 := rate_bounds (r := hundred) (by omega) hh
    rw [lerp_ok hub.1 (le_refl _) hub.2 (le_refl _) hr1.1 (rate_mono hpr hc) hr2.2]
    split
    · rfl
    · rw [lerpVal_start]
  | cons p rest ih =>
    intro pu pr hc hpu0 hpu1 hpr
    simp only [Chain] at hc
    simp only [curveLoop]
    rcases hc with ⟨hz, hc⟩ | ⟨hnz, hlt, hpm, hrr, hc⟩
    · simp only [hz, ↓reduceIte]
      exact ih pu pr hc hpu0 hpu1 hpr
    · simp only [hnz, ↓reduceIte]
      have hsm := util_strict_mono hpu0 hlt
      have hchainle : p.rate ≤ hundred := chain_le hundred rest p.util p.rate hc
      have hub := util_bounds hpu0 hpu1
      have hub' := util_bounds (u := p.util) (by omega) (le_of_lt hpm)
      have hr1 := rate_bounds hpr (by omega)
      have hr2 := rate_bounds (r := p.rate) (by omega) (by omega)
      simp only [le_of_lt hsm, ↓reduceIte]
      rw [lerp_ok hub.1 (le_refl _) (le_of_lt hsm) hub'.2 hr1.1 (rate_mono hpr hrr) hr2.2]
      split
      · rfl
      · rw [lerpVal_start]

/-- **curve_hits_zero**: at (and below) 0 % utilisation the base rate is the zero-utilisation rate. -/
theorem curve_hits_zero (c : IrCalc) (hw : WF c) (hv : validateSevenPoint c = true) (ur : Int) (hur : ur ≤ 0) :
    multipointCurve c ur = .ok (rateFromU32 c.zeroRate) := by
  obtain ⟨hc, _⟩ := validate_chain c hw hv
  have hcl : clampUr ur = 0 := by unfold clampUr; simp only [ONE_eq]; omega
  unfold multipointCurve
  rw [hcl]
  have := loop_at_start c.hundredRate hw.hundred_le c.points 0 c.zeroRate hc (le_refl _) (by decide) hw.zero_nonneg
  rw [util_zero] at this
  exact this

/-- at 100 % the loop returns the 100 % rate -/
theorem loop_at_one (hundred : Int) (hh : hundred ≤ U32MAX) :
    ∀ (pts : List Point) (pu pr : Int), Chain hundred pu pr pts → 0 ≤ pu → pu < U32MAX → 0 ≤ pr →
      curveLoop pts (utilFromU32 pu) (rateFromU32 pr) (rateFromU32 hundred) ONE
        = .ok (rateFromU32 hundred) := by
  intro pts
  induction pts with
  | nil =>
    intro pu pr hc hpu0 hpu1 hpr
    simp only [Chain] at hc
    simp only [curveLoop]
    have hub := util_bounds hpu0 (le_of_lt hpu1)
    have hlt : utilFromU32 pu < ONE := by rw [← util_max]; exact util_strict_mono hpu0 hpu1
    have hr1 := rate_bounds hpr (by omega)
    have hr2 := rate_bounds (r := hundred) (by omega) hh
    rw [lerp_ok hub.1 (le_of_lt hlt) (le_refl _) (le_refl _) hr1.1 (rate_mono hpr hc) hr2.2]
    have : ¬ ONE ≤ utilFromU32 pu := by omega
    simp only [this, ↓reduceIte, lerpVal_end hlt]
  | cons p rest ih =>
    intro pu pr hc hpu0 hpu1 hpr
    simp only [Chain] at hc
    simp only [curveLoop]
    rcases hc with ⟨hz, hc⟩ | ⟨hnz, hlt, hpm, hrr, hc⟩
    · simp only [hz, ↓reduceIte]
      exact ih pu pr hc hpu0 hpu1 hpr
    · simp only [hnz, ↓reduceIte]
      have : ¬ ONE ≤ utilFromU32 p.util := by
        have := util_strict_mono (u := p.util) (v := U32MAX) (by omega) hpm
        rw [util_max] at this
        omega
      simp only [this, ↓reduceIte]
      have hchainle : p.rate ≤ hundred := chain_le hundred rest p.util p.rate hc
      exact ih p.util p.rate hc (by omega) hpm (by omega)

/-- **curve_hits_hundred**: at (and above) 100 % utilisation the base rate is exactly the configured
    full-utilisation rate. (Full statement since the repair `fix: reject interest curve points at
    100% utilization`; before it a point at util = u32::MAX shadowed the 100 % rate.) -/
theorem curve_hits_hundred (c : IrCalc) (hw : WF c) (hv : validateSevenPoint c = true)
    (ur : Int) (hur : ONE ≤ ur) :
    multipointCurve c ur = .ok (rateFromU32 c.hundredRate) := by
  obtain ⟨hc, _⟩ := validate_chain c hw hv
  have hcl : clampUr ur = ONE := by unfold clampUr; simp only [ONE_eq] at *; omega
  unfold multipointCurve
  rw [hcl]
  have := loop_at_one c.hundredRate hw.hundred_le c.points 0 c.zeroRate hc (le_refl _) (by decide)
    hw.zero_nonneg
  rw [util_zero] at this
  exact this

/-- regression witness of the repaired defect: the configuration with a point at util = u32::MAX
    (which used to validate and to return 1000 instead of the 100 % rate) is now rejected. -/
def shadowCfg : IrCalc :=
  { optimal := 0, plateau := 0, maxIr := 0, insFixed := 0, insRate := 0, grpFixed := 0, grpRate := 0,
    progFixed := 0, progRate := 0, addProgramFees := false, zeroRate := 0, hundredRate := 4294967295,
    points := [⟨4294967295, 1000⟩, ⟨0, 0⟩, ⟨0, 0⟩, ⟨0, 0⟩, ⟨0, 0⟩], curveType := 1 }

theorem point_at_max_rejected : validateSevenPoint shadowCfg = false := by decide

/-- the loop is non-decreasing in the utilisation -/
theorem loop_monotone (hundred : Int) (hh : hundred ≤ U32MAX) :
    ∀ (pts : List Point) (pu pr u1 u2 r1 r2 : Int), Chain hundred pu pr pts → 0 ≤ pu → pu ≤ U32MAX → 0 ≤ pr →
      utilFromU32 pu ≤ u1 → u1 ≤ u2 → u2 ≤ ONE →
      curveLoop pts (utilFromU32 pu) (rateFromU32 pr) (rateFromU32 hundred) u1 = .ok r1 →
      curveLoop pts (utilFromU32 pu) (rateFromU32 pr) (rateFromU32 hundred) u2 = .ok r2 → r1 ≤ r2 := by
  intro pts
  induction pts with
  | nil =>
    intro pu pr u1 u2 r1 r2 hc hpu0 hpu1 hpr h1 h12 h2 e1 e2
    simp only [Chain] at hc
    simp only [curveLoop] at e1 e2
    have hub := util_bounds hpu0 hpu1
    have hr1 := rate_bounds hpr (by omega)
    have hr2 := rate_bounds (r := hundred) (by omega) hh
    have hm := rate_mono hpr hc
    rw [lerp_ok hub.1 h1 (by omega) (le_refl _) hr1.1 hm hr2.2] at e1
    rw [lerp_ok hub.1 (by omega) h2 (le_refl _) hr1.1 hm hr2.2] at e2
    injection e1 with e1; injection e2 with e2
    subst e1; subst e2
    split
    · exact le_refl _
    · exact lerpVal_mono h1 h12 (by omega) hm
  | cons p rest ih =>
    intro pu pr u1 u2 r1 r2 hc hpu0 hpu1 hpr h1 h12 h2 e1 e2
    simp only [Chain] at hc
    simp only [curveLoop] at e1 e2
    rcases hc with ⟨hz, hc⟩ | ⟨hnz, hlt, hpm, hrr, hc⟩
    · simp only [hz, ↓reduceIte] at e1 e2
      exact ih pu pr u1 u2 r1 r2 hc hpu0 hpu1 hpr h1 h12 h2 e1 e2
    · simp only [hnz, ↓reduceIte] at e1 e2
      have hub := util_bounds hpu0 hpu1
      have hub' := util_bounds (u := p.util) (by omega) (le_of_lt hpm)
      have hsm := util_strict_mono hpu0 hlt
      have hchainle : p.rate ≤ hundred := chain_le hundred rest p.util p.rate hc
      have hr1 := rate_bounds hpr (by omega)
      have hr2 := rate_bounds (r := p.rate) (by omega) (by omega)
      have hm := rate_mono hpr hrr
      by_cases hle2 : u2 ≤ utilFromU32 p.util
      · have hle1 : u1 ≤ utilFromU32 p.util := by omega
        simp only [hle1, hle2, ↓reduceIte] at e1 e2
        rw [lerp_ok hub.1 h1 hle1 hub'.2 hr1.1 hm hr2.2] at e1
        rw [lerp_ok hub.1 (by omega) hle2 hub'.2 hr1.1 hm hr2.2] at e2
        injection e1 with e1; injection e2 with e2
        subst e1; subst e2
        have : ¬ utilFromU32 p.util ≤ utilFromU32 pu := by omega
        simp only [this, ↓reduceIte]
        exact lerpVal_mono h1 h12 hsm hm
      · simp only [hle2, ↓reduceIte] at e2
        obtain ⟨r2', hr2', hlo, _⟩ := loop_defined_bounded hundred hh rest p.util p.rate u2 hc (by omega) (le_of_lt hpm)
          (by omega) (by omega) h2
        rw [hr2'] at e2
        injection e2 with e2
        subst e2
        by_cases hle1 : u1 ≤ utilFromU32 p.util
        · simp only [hle1, ↓reduceIte] at e1
          rw [lerp_ok hub.1 h1 hle1 hub'.2 hr1.1 hm hr2.2] at e1
          injection e1 with e1
          subst e1
          have : ¬ utilFromU32 p.util ≤ utilFromU32 pu := by omega
          simp only [this, ↓reduceIte]
          have := lerpVal_bounds (sy := rateFromU32 pr) (ey := rateFromU32 p.rate) h1 hle1 hsm hm
          omega
        · simp only [hle1, ↓reduceIte] at e1
          exact ih p.util p.rate u1 u2 r1 r2' hc (by omega) (le_of_lt hpm) (by omega) (by omega) h12 h2 e1 hr2'

theorem clampUr_mono {a b : Int} (h : a ≤ b) : clampUr a ≤ clampUr b := by
  unfold clampUr; simp only [ONE_eq]; omega

/-- **curve_monotone**: the base rate never decreases as utilisation rises. -/
theorem curve_monotone (c : IrCalc) (hw : WF c) (hv : validateSevenPoint c = true) (u1 u2 r1 r2 : Int)
    (h : u1 ≤ u2) (e1 : multipointCurve c u1 = .ok r1) (e2 : multipointCurve c u2 = .ok r2) : r1 ≤ r2 := by
  obtain ⟨hc, _⟩ := validate_chain c hw hv
  unfold multipointCurve at e1 e2
  have hb1 := clampUr_bounds u1
  have hb2 := clampUr_bounds u2
  rw [← util_zero] at e1 e2
  exact loop_monotone c.hundredRate hw.hundred_le c.points 0 c.zeroRate _ _ r1 r2 hc (le_refl _) (by decide)
    hw.zero_nonneg (by rw [util_zero]; exact hb1.1) (clampUr_mono h) hb2.2 e1 e2


/-! ### legacy three-point curve -/

/-- **legacy_defined_bounded**: for every accepted legacy configuration and every utilisation in
    [0, 100 %] the base rate is defined and lies in [0, max_interest_rate]; it equals the plateau
    rate at the optimal utilisation and the max rate at 100 %. -/
theorem legacy_defined_bounded (c : IrCalc) (hv : validateLegacy c = true) (hmax : c.maxIr ≤ MAX)
    (ur : Int) (h0 : 0 ≤ ur) (h1 : ur ≤ ONE) :
    ∃ r, legacyCurve c ur = .ok r ∧ 0 ≤ r ∧ r ≤ c.maxIr ∧
         (ur = c.optimal → r = c.plateau) ∧ (ur = ONE → r = c.maxIr) := by
  simp only [validateLegacy, Bool.and_eq_true, decide_eq_true_eq] at hv
  obtain ⟨⟨⟨⟨ho0, ho1⟩, hp0⟩, hm0⟩, hpm⟩ := hv
  have hcl : clampUr ur = ur := by unfold clampUr; simp only [ONE_eq] at *; omega
  simp only [legacyCurve, hcl]
  by_cases hle : ur ≤ c.optimal
  · simp only [hle, ↓reduceIte]
    have hq := prop_bounds (off := ur) (dx := c.optimal) h0 hle ho0
    have hs := frac_mul_bounds (d := c.plateau) (p := ur * ONE / c.optimal) (by omega) hq.1 hq.2
    have e1 : div? ur c.optimal = some (ur * ONE / c.optimal) := by
      unfold div?
      have : ¬ c.optimal = 0 := by omega
      simp only [this, ↓reduceIte]
      rw [tdiv_nonneg (by have := ONE_pos; positivity)]
      exact chk_some (by simp only [MIN_eq, MAX_eq, ONE_eq] at *; omega)
    have e2 : mul? (ur * ONE / c.optimal) c.plateau = some (c.plateau * (ur * ONE / c.optimal) / ONE) := by
      have hc : (ur * ONE / c.optimal) * c.plateau = c.plateau * (ur * ONE / c.optimal) := mul_comm _ _
      unfold mul?
      rw [hc]
      exact chk_some (by simp only [MIN_eq, MAX_eq, ONE_eq] at *; omega)
    simp only [e1, e2, Res.ofOpt, bind, Except.bind]
    refine ⟨_, rfl, hs.1, by omega, ?_, ?_⟩
    · intro he
      subst he
      rw [prop_full ho0, Int.mul_ediv_cancel _ (by decide)]
    · intro he; omega
  · simp only [hle, ↓reduceIte]
    have hden : 0 < ONE - c.optimal := by omega
    have hq := prop_bounds (off := ur - c.optimal) (dx := ONE - c.optimal) (by omega) (by omega) hden
    have hs := frac_mul_bounds (d := c.maxIr - c.plateau) (p := (ur - c.optimal) * ONE / (ONE - c.optimal))
      (by omega) hq.1 hq.2
    have e1 : subP ur c.optimal = .ok (ur - c.optimal) :=
      subP_ok (by simp only [MIN_eq, ONE_eq] at *; omega) (by simp only [MAX_eq, ONE_eq] at *; omega)
    have e2 : subP ONE c.optimal = .ok (ONE - c.optimal) :=
      subP_ok (by simp only [MIN_eq, ONE_eq] at *; omega) (by simp only [MAX_eq, ONE_eq] at *; omega)
    have e3 : div? (ur - c.optimal) (ONE - c.optimal) = some ((ur - c.optimal) * ONE / (ONE - c.optimal)) := by
      unfold div?
      have : ¬ ONE - c.optimal = 0 := by omega
      simp only [this, ↓reduceIte]
      rw [tdiv_nonneg (by have := ONE_pos; nlinarith)]
      exact chk_some (by simp only [MIN_eq, MAX_eq, ONE_eq] at *; omega)
    have e4 : subP c.maxIr c.plateau = .ok (c.maxIr - c.plateau) :=
      subP_ok (by simp only [MIN_eq, MAX_eq] at *; omega) (by simp only [MAX_eq] at *; omega)
    have e5 : mul? ((ur - c.optimal) * ONE / (ONE - c.optimal)) (c.maxIr - c.plateau)
        = some ((c.maxIr - c.plateau) * ((ur - c.optimal) * ONE / (ONE - c.optimal)) / ONE) := by
      have hc : ((ur - c.optimal) * ONE / (ONE - c.optimal)) * (c.maxIr - c.plateau)
          = (c.maxIr - c.plateau) * ((ur - c.optimal) * ONE / (ONE - c.optimal)) := mul_comm _ _
      unfold mul?
      rw [hc]
      exact chk_some (by simp only [MIN_eq, MAX_eq, ONE_eq] at *; omega)
    have e6 : add? ((c.maxIr - c.plateau) * ((ur - c.optimal) * ONE / (ONE - c.optimal)) / ONE) c.plateau
        = some ((c.maxIr - c.plateau) * ((ur - c.optimal) * ONE / (ONE - c.optimal)) / ONE + c.plateau) :=
      add?_eq (by simp only [MIN_eq, MAX_eq, ONE_eq] at *; omega) (by simp only [MIN_eq, MAX_eq, ONE_eq] at *; omega)
    simp only [e1, e2, e3, e4, e5, e6, Res.ofOpt, bind, Except.bind]
    refine ⟨_, rfl, by omega, by omega, by intro he; omega, ?_⟩
    intro he
    subst he
    rw [prop_full hden, Int.mul_ediv_cancel _ (by decide)]
    omega

theorem legacy_clamped (c : IrCalc) (ur : Int) : legacyCurve c ur = legacyCurve c (clampUr ur) := by
  have : clampUr (clampUr ur) = clampUr ur := by unfold clampUr; simp only [ONE_eq]; omega
  simp only [legacyCurve, this]

/-- **legacy_bounded_everywhere**: for every accepted legacy configuration and EVERY utilisation
    (clamped by the code since `fix: clamp utilization in the legacy interest curve`) the base
    rate is defined and lies in [0, max_interest_rate]. -/
theorem legacy_bounded_everywhere (c : IrCalc) (hv : validateLegacy c = true) (hmax : c.maxIr ≤ MAX) (ur : Int) :
    ∃ r, legacyCurve c ur = .ok r ∧ 0 ≤ r ∧ r ≤ c.maxIr := by
  have hb := clampUr_bounds ur
  obtain ⟨r, hr, h0, h1, _⟩ := legacy_defined_bounded c hv hmax (clampUr ur) hb.1 hb.2
  exact ⟨r, by rw [legacy_clamped]; exact hr, h0, h1⟩

/-- regression witness of the repaired defect: (optimal 0.8, plateau 0.1, max 1.0) at utilisation
    150 % used to give 3.25; it now gives the configured maximum. -/
def legacyCfg : IrCalc :=
  { optimal := 225179981368524, plateau := 28147497671065, maxIr := 281474976710656, insFixed := 0,
    insRate := 0, grpFixed := 0, grpRate := 0, progFixed := 0, progRate := 0, addProgramFees := false,
    zeroRate := 0, hundredRate := 0, points := [], curveType := 0 }

theorem legacy_clamped_witness :
    validateLegacy legacyCfg = true ∧ legacyCurve legacyCfg (ONE + ONE / 2) = .ok legacyCfg.maxIr := by
  decide

/-! ### rates derived from the base rate -/

theorem bind_ok {α β : Type} {x : Res α} {f : α → Res β} {b : β} (h : (x >>= f) = .ok b) :
    ∃ a, x = .ok a ∧ f a = .ok b := by
  cases x with
  | error e => cases h
  | ok a => exact ⟨a, rfl, h⟩

theorem ofOpt_ok {α : Type} {o : Option α} {a : α} (h : Res.ofOpt o = .ok a) : o = some a := by
  cases o with
  | none => cases h
  | some b => injection h with h; rw [h]

theorem assert_ok {x : Int} (h : assertNonneg x = .ok ()) : 0 ≤ x := by
  unfold assertNonneg at h
  split at h
  · assumption
  · cases h

/-- what a successful `calc_interest_rate` returns, field by field -/
theorem calc_spec {c : IrCalc} {ur : Int} {r : Rates} (h : calcInterestRate c ur = .ok r) :
    ∃ feeIr feeFixed onePlus b1,
      baseRate c ur = .ok r.base ∧
      mul? r.base ur = some r.lending ∧
      feeIr = c.insRate + c.grpRate + (if c.addProgramFees then c.progRate else 0) ∧
      feeFixed = c.insFixed + c.grpFixed + (if c.addProgramFees then c.progFixed else 0) ∧
      add? ONE feeIr = some onePlus ∧ mul? r.base onePlus = some b1 ∧ add? b1 feeFixed = some r.borrowing ∧
      calcFeeRate r.base c.grpRate c.grpFixed = .ok r.groupFee ∧
      calcFeeRate r.base c.insRate c.insFixed = .ok r.insuranceFee ∧
      calcFeeRate r.base (if c.addProgramFees then c.progRate else 0) (if c.addProgramFees then c.progFixed else 0)
        = .ok r.protocolFee ∧
      0 ≤ r.lending ∧ 0 ≤ r.borrowing ∧ 0 ≤ r.groupFee ∧ 0 ≤ r.insuranceFee ∧ 0 ≤ r.protocolFee := by
  unfold calcInterestRate at h
  obtain ⟨feeIr, hfi, h⟩ := bind_ok h
  obtain ⟨feeFixed, hff, h⟩ := bind_ok h
  obtain ⟨base, hb, h⟩ := bind_ok h
  obtain ⟨lending, hl, h⟩ := bind_ok h
  obtain ⟨onePlus, hop, h⟩ := bind_ok h
  obtain ⟨b1, hb1, h⟩ := bind_ok h
  obtain ⟨borrowing, hbo, h⟩ := bind_ok h
  obtain ⟨gf, hgf, h⟩ := bind_ok h
  obtain ⟨inf, hinf, h⟩ := bind_ok h
  obtain ⟨pf, hpf, h⟩ := bind_ok h
  obtain ⟨_, ha1, h⟩ := bind_ok h
  obtain ⟨_, ha2, h⟩ := bind_ok h
  obtain ⟨_, ha3, h⟩ := bind_ok h
  obtain ⟨_, ha4, h⟩ := bind_ok h
  obtain ⟨_, ha5, h⟩ := bind_ok h
  injection h with h
  subst h
  obtain ⟨x1, hx1, hfi⟩ := bind_ok hfi
  obtain ⟨y1, hy1, hff⟩ := bind_ok hff
  have px : ∀ {a b s : Int}, addP a b = .ok s → s = a + b := by
    intro a b s hh; unfold addP at hh; split at hh
    · injection hh with hh; exact hh.symm
    · cases hh
  refine ⟨feeIr, feeFixed, onePlus, b1, hb, ofOpt_ok hl, ?_, ?_, ofOpt_ok hop, ofOpt_ok hb1, ofOpt_ok hbo,
    hgf, hinf, hpf, assert_ok ha1, assert_ok ha2, assert_ok ha3, assert_ok ha4, assert_ok ha5⟩
  · rw [px hfi, px hx1]
  · rw [px hff, px hy1]

/-- **borrow_ge_base**: with non-negative fees (and a non-negative base rate, which every accepted
    curve yields) the borrowing rate is never below the base rate. -/
theorem borrow_ge_base {c : IrCalc} {ur : Int} {r : Rates} (h : calcInterestRate c ur = .ok r)
    (hbase : 0 ≤ r.base)
    (h1 : 0 ≤ c.insRate) (h2 : 0 ≤ c.grpRate) (h3 : 0 ≤ c.progRate)
    (h4 : 0 ≤ c.insFixed) (h5 : 0 ≤ c.grpFixed) (h6 : 0 ≤ c.progFixed) : r.base ≤ r.borrowing := by
  obtain ⟨feeIr, feeFixed, onePlus, b1, _, _, hfi, hff, hop, hb1, hbo, _⟩ := calc_spec h
  have hfi0 : 0 ≤ feeIr := by rw [hfi]; split <;> omega
  have hff0 : 0 ≤ feeFixed := by rw [hff]; split <;> omega
  have e1 := (add?_some hop).1
  have e2 := (mul?_some hb1).1
  have e3 := (add?_some hbo).1
  have : r.base * ONE ≤ r.base * onePlus := mul_le_mul_of_nonneg_left (by omega) hbase
  have := Int.ediv_le_ediv ONE_pos this
  rw [Int.mul_ediv_cancel _ (by decide)] at this
  omega

/-- **lend_le_base**: for utilisation in [0, 100 %] the lending rate is never above the base rate. -/
theorem lend_le_base {c : IrCalc} {ur : Int} {r : Rates} (h : calcInterestRate c ur = .ok r)
    (hbase : 0 ≤ r.base) (hu0 : 0 ≤ ur) (hu1 : ur ≤ ONE) : r.lending ≤ r.base := by
  obtain ⟨_, _, _, _, _, hl, _⟩ := calc_spec h
  have e := (mul?_some hl).1
  have := frac_mul_bounds hbase hu0 hu1
  omega

/-- **curve_never_fails**: an accepted seven-point curve cannot by itself make the rate
    computation fail — `baseRate` succeeds for every utilisation; any failure of
    `calc_interest_rate` on such a configuration comes from the fee arithmetic. -/
theorem curve_never_fails (c : IrCalc) (hw : WF c) (hct : c.curveType = 1) (hv : validateSevenPoint c = true)
    (ur : Int) : ∃ r, baseRate c ur = .ok r ∧ 0 ≤ r ∧ r ≤ TEN := by
  obtain ⟨r, hr, h0, h1⟩ := curve_defined_bounded c hw hv ur
  have hz := rate_bounds hw.zero_nonneg (by have := (validate_chain c hw hv).2; have := hw.hundred_le; omega)
  have hh := rate_bounds (r := c.hundredRate) (by have := (validate_chain c hw hv).2; have := hw.zero_nonneg; omega)
    hw.hundred_le
  refine ⟨r, ?_, by omega, by omega⟩
  unfold baseRate
  simp [hct, hr]

/-! ### non-vacuity -/
def sampleCfg : IrCalc :=
  { optimal := 0, plateau := 0, maxIr := 0, insFixed := 0, insRate := 28147497671065, grpFixed := 2814749767106,
    grpRate := 0, progFixed := 0, progRate := 0, addProgramFees := false, zeroRate := 42949672,
    hundredRate := 2147483647, points := [⟨2147483647, 214748364⟩, ⟨3865470565, 429496729⟩, ⟨0, 0⟩, ⟨0, 0⟩, ⟨0, 0⟩],
    curveType := 1 }
example : validateSevenPoint sampleCfg = true ∧ WF sampleCfg := by
  refine ⟨by decide, ⟨by decide, by decide, ?_⟩⟩
  intro p hp
  simp [sampleCfg] at hp
  rcases hp with rfl | rfl | rfl <;> decide
example : (calcInterestRate sampleCfg (ONE / 2)).isOk = true := by decide

/-! ### `migrate_curve` (permissionless): what it leaves behind is an accepted curve -/

/-- whatever `migrate_curve` succeeds with is a configuration that `validate` accepts — so every theorem of this file
    about accepted curves applies to migrated banks (model Interest.migrateCurve, diffed through the real instruction:
    `ir.migrate` lines of the curve family) -/
theorem migrate_result_valid {c c' : IrCalc} (h : migrateCurve c = .ok c') : validate c' = .ok true := by
  unfold migrateCurve at h
  obtain ⟨ok, hok, h⟩ := Res.bind_ok h
  split at h
  · cases h
  rename_i hv
  split at h
  · injection h with h; subst h
    simp at hv
    rw [hok, hv]
  · obtain ⟨ok', hok', h⟩ := Res.bind_ok h
    split at h
    · cases h
    rename_i hv'
    injection h with h; subst h
    simp at hv'
    rw [hok', hv']

/-- a seven-point curve is left exactly as it is -/
theorem migrate_seven_point_noop {c c' : IrCalc} (hc : c.curveType = 1) (h : migrateCurve c = .ok c') : c' = c := by
  unfold migrateCurve at h
  obtain ⟨ok, _, h⟩ := Res.bind_ok h
  split at h
  · cases h
  · first
      | (injection h with h; exact h.symm)
      | (split at h
         · injection h with h; exact h.symm
         · rename_i hn; exact absurd hc hn)

/-- (non-vacuity) a usual legacy curve — optimal 80 %, plateau 10 %, max 300 % — migrates to one point on the u32 grid -/
def usualLegacy : IrCalc :=
  { optimal := ONE * 8 / 10, plateau := ONE / 10, maxIr := 3 * ONE, insFixed := 0, insRate := 0, grpFixed := 0,
    grpRate := 0, progFixed := 0, progRate := 0, addProgramFees := false, zeroRate := 0, hundredRate := 0,
    points := [⟨0, 0⟩, ⟨0, 0⟩, ⟨0, 0⟩, ⟨0, 0⟩, ⟨0, 0⟩], curveType := 0 }

example : ∃ c', migrateCurve usualLegacy = .ok c' ∧ c'.curveType = 1 ∧ c'.zeroRate = 0 := ⟨_, by rfl, by decide, by decide⟩

end Mfi.Props.C18
