/-
  C07 — Bankruptcy: only real bad debt is discharged; insurance first, rest pro rata.

  Theorems about `checkBankrupt` (Mfi/Model/Risk.lean, the eligibility test; its equity valuation is diffed
  through the real pulse_health instruction by the `health` family) and about `settleBankruptcy` /
  `socializeLoss` (Mfi/Model/Bank.lean; diffed against the REAL lending_pool_handle_bankruptcy through real
  dispatch by the `bkr` family, and socialize_loss alone by the `bank` family).
-/
import Mfi.Model.Bank
import Mfi.Model.Risk
import Mfi.Lemmas.FxL
import Mfi.Lemmas.ResL
import Mfi.Lemmas.BankL
import Mfi.Lemmas.SkelL
import Mfi.Lemmas.AccL
import Mfi.Props.C09
import Mfi.Gen.TxLists
import Mfi.Lemmas.ConstL
import Mfi.Lemmas.WorldL
import Mfi.Lemmas.WorldTxL

namespace Mfi.Props.C07
open Mfi Mfi.Fx Mfi.Bank Mfi.Gen

/-! ### only real bad debt -/

/-- **eligibility**: the bankruptcy assessment passes only for an account whose unweighted (equity) assets
    are worth less than its liabilities AND less than ten cents, with liabilities above dust. -/
theorem bankrupt_only_if {ps : List Risk.Pos} {a l : Int} (h : Risk.checkBankrupt ps = .ok (a, l)) :
    a < l ∧ a < BANKRUPT_THRESHOLD ∧ ZERO_AMOUNT_THRESHOLD < l ∧
    ∃ c, Risk.components ps .equity = .ok c ∧ c.assets = a ∧ c.liabs = l := by
  unfold Risk.checkBankrupt at h
  obtain ⟨c, hc, h⟩ := Res.bind_ok h
  split at h
  · simp [Risk.err] at h
  · rename_i h1
    split at h
    · simp [Risk.err] at h
    · rename_i h2
      injection h with h
      injection h with e1 e2
      subst e1; subst e2
      have h1' : c.assets < c.liabs := by simpa using h1
      have h2' : c.assets < BANKRUPT_THRESHOLD ∧ c.liabs > ZERO_AMOUNT_THRESHOLD := by simpa using h2
      exact ⟨h1', h2'.1, h2'.2, c, hc, rfl, rfl⟩

theorem ten_cents : (BANKRUPT_THRESHOLD - 1) * 10 / ONE = 0 ∧ BANKRUPT_THRESHOLD * 10 / ONE = 1 := by decide

/-- who may settle: anyone if the bank opted in, otherwise only the group admin or the risk admin -/
theorem authorized_iff (p : Bool) (s adm ra : Nat) :
    bankruptcyAuthorized p s adm ra = true ↔ (p = true ∨ s = ra ∨ s = adm) := by
  unfold bankruptcyAuthorized
  simp [Bool.or_eq_true]
  tauto

/-! ### the loss is shared pro rata, exactly, and the share value never goes negative -/

theorem isubP_ok {a b r : Int} (h : Interest.subP a b = .ok r) : r = a - b := by
  unfold Interest.subP at h; split at h
  · injection h with h; exact h.symm
  · cases h

/-- **socialize_spec**: `socialize_loss(loss)` touches nothing but the deposit share value; if the loss
    reaches the total value of deposits the share value becomes 0 and the bank is killed; otherwise the new
    share value is (total − loss)/shares rounded down: not negative, not above the old one, and the total
    value of deposits falls by the loss — short of it by less than one ulp per deposit share. -/
theorem socialize_spec {b b' : Bank} {loss : Int} {kill : Bool} (h : socializeLoss b loss = .ok (b', kill))
    (hl : 0 ≤ loss) (hsa : 0 ≤ b.sa) (hasv : 0 ≤ b.asv) :
    b' = { b with asv := b'.asv } ∧
    ((b.sa * b.asv / ONE ≤ loss ∧ b'.asv = 0 ∧ kill = true) ∨
     (loss < b.sa * b.asv / ONE ∧ 0 < b.sa ∧ 0 ≤ b'.asv ∧ b'.asv ≤ b.asv ∧ kill = (b'.asv == 0) ∧
      b.sa * b'.asv ≤ (b.sa * b.asv / ONE - loss) * ONE ∧ (b.sa * b.asv / ONE - loss) * ONE < b.sa * b'.asv + b.sa)) := by
  unfold socializeLoss at h
  obtain ⟨total, ht, h⟩ := Res.bind_ok h
  obtain ⟨et, _, _⟩ := mul?_some (math_ok ht)
  have hONE := ONE_pos
  split at h
  · rename_i hle
    injection h with h
    injection h with h1 h2
    subst h1; subst h2
    exact ⟨rfl, Or.inl ⟨by rw [← et]; exact hle, rfl, rfl⟩⟩
  · rename_i hgt
    obtain ⟨diff, hd, h⟩ := Res.bind_ok h
    obtain ⟨nsv, hn, h⟩ := Res.bind_ok h
    injection h with h
    injection h with h1 h2
    subst h1; subst h2
    have ed := isubP_ok hd
    obtain ⟨hsa0, en, _, _⟩ := div?_some (math_ok hn)
    have hsapos : 0 < b.sa := by omega
    have hdn : 0 ≤ diff := by omega
    rw [tdiv_nonneg (Int.mul_nonneg hdn (by omega))] at en
    have f1 : nsv * b.sa ≤ diff * ONE := by rw [en]; exact Int.ediv_mul_le _ (by omega)
    have f2 : diff * ONE < (nsv + 1) * b.sa := by rw [en]; exact Int.lt_ediv_add_one_mul_self _ hsapos
    have nn : 0 ≤ nsv := by rw [en]; exact Int.ediv_nonneg (Int.mul_nonneg hdn (by omega)) (by omega)
    have tl : total * ONE ≤ b.sa * b.asv := by rw [et]; exact Int.ediv_mul_le _ (by omega)
    have hle : nsv ≤ b.asv := by
      -- nsv·sa ≤ diff·ONE ≤ total·ONE ≤ sa·asv
      have h3 : diff * ONE ≤ total * ONE := Int.mul_le_mul_of_nonneg_right (by omega) (by omega)
      have h4 : nsv * b.sa ≤ b.sa * b.asv := Int.le_trans f1 (Int.le_trans h3 tl)
      rw [Int.mul_comm b.sa] at h4
      exact Int.le_of_mul_le_mul_right h4 hsapos
    refine ⟨rfl, Or.inr ⟨by rw [← et]; omega, hsapos, nn, hle, rfl, ?_, ?_⟩⟩
    · have e1 : b.sa * nsv = nsv * b.sa := Int.mul_comm _ _
      show b.sa * nsv ≤ (b.sa * b.asv / ONE - loss) * ONE
      rw [e1, ← et, ← ed]; exact f1
    · have e1 : b.sa * nsv = nsv * b.sa := Int.mul_comm _ _
      have e2 : (nsv + 1) * b.sa = nsv * b.sa + b.sa := by rw [Int.add_mul, Int.one_mul]
      show (b.sa * b.asv / ONE - loss) * ONE < b.sa * nsv + b.sa
      rw [e1, ← et, ← ed, ← e2]; exact f2

/-- every depositor's claim is scaled by the same factor new/old share value (claims are shares × share
    value and shares are untouched) -/
theorem claims_scale_uniformly (s1 s2 asv asv' : Int) :
    (s1 * asv') * (s2 * asv) = (s2 * asv') * (s1 * asv) := by
  simp only [Int.mul_comm, Int.mul_left_comm, Int.mul_assoc]

/-! ### insurance first -/

theorem ceil_spec {a c : Int} (h : ceil? a = some c) : ∃ k, c = k * ONE ∧ a ≤ k * ONE ∧ k * ONE < a + ONE := by
  unfold ceil? at h
  have e := (chk_eq_some h).1
  refine ⟨-((-a) / ONE), e, ?_, ?_⟩
  · have := Int.ediv_mul_le (-a) (by decide : ONE ≠ 0)
    have e3 : -(-a / ONE) * ONE = -(-a / ONE * ONE) := Int.neg_mul _ _
    omega
  · have := Int.lt_ediv_add_one_mul_self (-a) ONE_pos
    have e2 : (-a / ONE + 1) * ONE = -a / ONE * ONE + ONE := by rw [Int.add_mul, Int.one_mul]
    have e3 : -(-a / ONE) * ONE = -(-a / ONE * ONE) := Int.neg_mul _ _
    omega

/-- **settle_spec**: the bad debt is the account's whole debt in the bank and exceeds dust; insurance
    covers min(bad debt, available) — the whole-token amount moved is that rounded UP and never more
    than the vault can deliver; exactly the remainder is socialized; nothing is socialized when the
    insurance suffices; the books then run socialize_loss followed by a repay of the whole bad debt. -/
theorem settle_spec {b : Bank} {bal : Balance} {avail now : Int} {o : BankruptcyOut}
    (h : settleBankruptcy b bal avail now = .ok o) (ha : 0 ≤ avail) :
    liabAmount b bal.l = .ok o.badDebt ∧ ZERO_AMOUNT_THRESHOLD < o.badDebt ∧
    o.covered = min o.badDebt (avail * ONE) ∧ o.socialized = o.badDebt - o.covered ∧ 0 ≤ o.socialized ∧
    (o.socialized = 0 ↔ o.badDebt ≤ avail * ONE) ∧
    o.covered ≤ o.coveredUp * ONE ∧ o.coveredUp * ONE < o.covered + ONE ∧ o.coveredUp ≤ avail ∧
    ∃ b1, socializeLoss b o.socialized = .ok (b1, o.kill) ∧
          increaseBalance b1 bal now o.badDebt .repayOnly = .ok (o.bank, o.bal) := by
  unfold settleBankruptcy at h
  obtain ⟨bad, hb, h⟩ := Res.bind_ok h
  obtain ⟨_, hc, h⟩ := Res.bind_ok h
  dsimp only at h
  obtain ⟨rest, hr, h⟩ := Res.bind_ok h
  obtain ⟨up, hu, h⟩ := Res.bind_ok h
  obtain ⟨cu, hcu, h⟩ := Res.bind_ok h
  obtain ⟨⟨b1, kill⟩, hs, h⟩ := Res.bind_ok h
  dsimp only at h
  obtain ⟨⟨b2, bal2⟩, hi, h⟩ := Res.bind_ok h
  injection h with h
  subst h
  dsimp only
  have hbad : ZERO_AMOUNT_THRESHOLD < bad := by simpa using chk_ok hc
  have er := isubP_ok hr
  have hONE := ONE_pos
  have hmin1 := Int.min_le_left bad (ofInt avail)
  have hmin2 := Int.min_le_right bad (ofInt avail)
  have hrest : 0 ≤ rest := by omega
  have emax : max rest 0 = rest := Int.max_eq_left hrest
  obtain ⟨k, ek, k1, k2⟩ := ceil_spec (math_ok hu)
  have hcu' : cu = up / ONE ∧ 0 ≤ cu := by
    have := math_ok hcu
    unfold toU64? at this
    simp only at this
    split at this
    · injection this with this; omega
    · cases this
  have ecu : cu = k := by
    rw [hcu'.1, ek]; exact Int.mul_ediv_cancel _ (by omega)
  have hof : ofInt avail = avail * ONE := rfl
  refine ⟨hb, hbad, by rw [hof], by rw [emax, er], by rw [emax]; exact hrest, ?_, ?_, ?_, ?_, b1, by rw [emax] at hs ⊢; exact hs, hi⟩
  · rw [emax, er, hof]
    constructor
    · intro h0
      have : min bad (avail * ONE) = bad := by omega
      have := Int.min_le_right bad (avail * ONE)
      omega
    · intro hle
      rw [Int.min_eq_left hle]; omega
  · rw [ecu]; exact k1
  · rw [ecu]; exact k2
  · -- k·ONE < covered + ONE ≤ avail·ONE + ONE  ⇒  k ≤ avail
    rw [ecu]
    have h1 : k * ONE < avail * ONE + ONE := by rw [hof] at hmin2; omega
    have h2 : k * ONE < (avail + 1) * ONE := by rw [Int.add_mul, Int.one_mul]; exact h1
    have := Int.lt_of_mul_lt_mul_right h2 (by omega : (0 : Int) ≤ ONE)
    omega

/-- **debt_cleared**: after the settlement the account's debt in the bank is gone up to less than one share
    value + one ulp of value (the repay converts the bad debt back into shares, rounding down), the bank's
    debt total fell by exactly what left the position, and deposits shares / the debt share value are
    untouched. -/
theorem debt_cleared {b : Bank} {bal : Balance} {avail now : Int} {o : BankruptcyOut}
    (h : settleBankruptcy b bal avail now = .ok o) (ha : 0 ≤ avail) (hl : 0 ≤ bal.l) (hlsv : 0 < b.lsv) :
    0 ≤ o.bal.l ∧ o.bal.l * b.lsv < b.lsv + ONE ∧ o.bank.sl = b.sl - (bal.l - o.bal.l) ∧
    o.bank.sa = b.sa ∧ o.bank.lsv = b.lsv ∧ o.bal.a = bal.a := by
  obtain ⟨hb, _, _, _, _, _, _, _, _, b1, hs, hi⟩ := settle_spec h ha
  have hONE := ONE_pos
  -- socialize touches only the deposit share value
  have hb1 : b1.lsv = b.lsv ∧ b1.sl = b.sl ∧ b1.sa = b.sa := by
    unfold socializeLoss at hs
    obtain ⟨t, _, hs⟩ := Res.bind_ok hs
    split at hs
    · injection hs with hs; injection hs with hs _; rw [← hs]; exact ⟨rfl, rfl, rfl⟩
    · obtain ⟨_, _, hs⟩ := Res.bind_ok hs
      obtain ⟨_, _, hs⟩ := Res.bind_ok hs
      injection hs with hs; injection hs with hs _; rw [← hs]; exact ⟨rfl, rfl, rfl⟩
  obtain ⟨bc, x1, curL, d, aInc, lDec, b2, b3, hc, hcl, hd, _, _, hai, hb2, hld, hb3, _, _, _, _, hx', ⟨lc, bcc, hb'⟩⟩ :=
    (increase_spec hi).ex
  obtain ⟨⟨r, ebc⟩, ⟨e, ex1⟩⟩ := claim_frame hc
  have x1l : x1.l = bal.l := by rw [ex1]
  have x1a : x1.a = bal.a := by rw [ex1]
  have bclsv : bc.lsv = b.lsv := by rw [ebc]; exact hb1.1
  -- the current liability is the bad debt itself
  have ecur : curL = o.badDebt := by
    unfold liabAmount at hcl hb
    rw [x1l, bclsv] at hcl
    rw [hb] at hcl
    injection hcl with hcl
    exact hcl.symm
  obtain ⟨ed, _, _⟩ := sub?_some hd
  have d0 : d = 0 := by rw [ed, ecur]; omega
  have aInc0 : aInc = 0 := by
    unfold assetShares at hai
    rw [d0] at hai
    simp only [Int.max_self] at hai
    split at hai
    · injection hai with hai; exact hai.symm
    · obtain ⟨_, e1, _, _⟩ := div?_some (math_ok hai)
      rw [e1]; simp
  obtain ⟨eb2, _, _⟩ := changeAsset_frame hb2
  obtain ⟨eb3, _, _⟩ := changeLiab_frame hb3
  have b2lsv : b2.lsv = b.lsv := by rw [eb2]; exact bclsv
  -- shares removed from the position
  have hmin : min curL o.badDebt = o.badDebt := by rw [ecur]; exact Int.min_self _
  have ebad : o.badDebt = bal.l * b.lsv / ONE := by
    unfold liabAmount at hb
    exact (mul?_some (math_ok hb)).1
  have badn : 0 ≤ o.badDebt := by rw [ebad]; exact Int.ediv_nonneg (Int.mul_nonneg hl (by omega)) (by omega)
  have elDec : lDec = o.badDebt * ONE / b.lsv := by
    unfold liabShares at hld
    rw [hmin, b2lsv] at hld
    obtain ⟨_, e1, _, _⟩ := div?_some (math_ok hld)
    rw [e1, tdiv_nonneg (Int.mul_nonneg badn (by omega))]
  have f1 : o.badDebt * ONE ≤ bal.l * b.lsv := by rw [ebad]; exact Int.ediv_mul_le _ (by omega)
  have f2 : bal.l * b.lsv < (o.badDebt + 1) * ONE := by rw [ebad]; exact Int.lt_ediv_add_one_mul_self _ hONE
  have g1 : lDec * b.lsv ≤ o.badDebt * ONE := by rw [elDec]; exact Int.ediv_mul_le _ (by omega)
  have g2 : o.badDebt * ONE < (lDec + 1) * b.lsv := by rw [elDec]; exact Int.lt_ediv_add_one_mul_self _ hlsv
  have hle : lDec ≤ bal.l := by
    have : lDec * b.lsv ≤ bal.l * b.lsv := Int.le_trans g1 f1
    exact Int.le_of_mul_le_mul_right this hlsv
  have e1 : (o.badDebt + 1) * ONE = o.badDebt * ONE + ONE := by rw [Int.add_mul, Int.one_mul]
  have e2 : (lDec + 1) * b.lsv = lDec * b.lsv + b.lsv := by rw [Int.add_mul, Int.one_mul]
  have e3 : (bal.l - lDec) * b.lsv = bal.l * b.lsv - lDec * b.lsv := Int.sub_mul _ _ _
  have hxl : o.bal.l = bal.l - lDec := by rw [hx', x1l]
  refine ⟨by rw [hxl]; omega, by rw [hxl, e3]; omega, ?_, ?_, ?_, by rw [hx', aInc0, x1a]; simp⟩
  · rw [hb', eb3, eb2, ebc, hxl]; simp only; rw [hb1.2.1]; omega
  · rw [hb', eb3, eb2, ebc, aInc0]; simp only; rw [hb1.2.2]; omega
  · rw [hb', eb3, eb2, ebc]; simp only; exact hb1.1

/-! ### the handler (skeleton and constraints regenerated from the source) -/

section tables
open Mfi.Gen.Skel

/-- eligibility is assessed first, the bank is accrued, insurance is moved under the insurance-vault
    authority, the loss is socialized, the whole bad debt is repaid, and only then the account is disabled;
    the account must not be in receivership or in a flash loan -/
theorem bankruptcy_shape :
    handle_bankruptcy = [.bankState .bank .failsInPausedState, .checkBankrupt, .accrue .bank, .transferOut, .signer .insurance,
                         .socializeLoss, .find, .op .repay, .updateBankCache, .setFlag .disabled] ∧
    Acc.hasCons .LendingPoolHandleBankruptcy .f_marginfi_account (.flagClear .f_marginfi_account .fl_ACCOUNT_IN_RECEIVERSHIP) = true ∧
    Acc.hasCons .LendingPoolHandleBankruptcy .f_marginfi_account (.flagClear .f_marginfi_account .fl_ACCOUNT_IN_FLASHLOAN) = true ∧
    Acc.isSigner .LendingPoolHandleBankruptcy .f_signer = true ∧
    Acc.hasOneOf .LendingPoolHandleBankruptcy .f_bank .f_group = true ∧
    Acc.hasOneOf .LendingPoolHandleBankruptcy .f_marginfi_account .f_group = true := by decide

/-- every step of the handler is unconditional (the authorization test and the kill are the only branches,
    and they contain none of these calls) -/
theorem bankruptcy_unconditional : allUnconditional handle_bankruptcy_cond = true := by decide

/-- the only place that kills a bank is the bankruptcy handler, and `Bank::configure` can never leave the
    killed state (C13: configure_killed_iff) -/
theorem disabled_only_by_bankruptcy_or_transfer :
    ∀ w ∈ TxL.flagWrites, w.2.2 = TxL.Flag.disabled → w.2.1 = true ∧
      (w.1 = .fn_lending_pool_handle_bankruptcy ∨ w.1 = .fn_transfer_to_new_account ∨ w.1 = .fn_transfer_to_new_account_pda) := by
  decide

/-- **the insurance that pays is the bank's own**: in the bankruptcy instruction the insurance vault, the
    liquidity vault that receives the cover and the insurance authority that signs are all program-derived
    addresses checked by `seeds` over the bank key: no look-alike token account can stand in for any of them,
    so "what the insurance holds" is what the BANK's insurance holds. -/
theorem bankruptcy_vaults_are_the_banks :
    ∀ f ∈ Acc.fields .LendingPoolHandleBankruptcy,
      (f.name = .f_insurance_vault ∨ f.name = .f_liquidity_vault ∨ f.name = .f_insurance_vault_authority) →
      f.hasSeeds = true := by
  decide

/-- (non-vacuity) all three seats exist in the struct -/
example : (Acc.fields .LendingPoolHandleBankruptcy).any (·.name = .f_insurance_vault) = true ∧
    (Acc.fields .LendingPoolHandleBankruptcy).any (·.name = .f_liquidity_vault) = true ∧
    (Acc.fields .LendingPoolHandleBankruptcy).any (·.name = .f_insurance_vault_authority) = true := by decide

end tables

/-- the equity valuation of the bankruptcy assessment divides by rows of the scaling table: that table is exactly the powers of ten 10^0 .. 10^23 as I80F48 (regenerated from the real
    constants on every run; the model computes its own powers of ten and is diffed against the real functions across
    ALL 24 decimals) -/
theorem scaling_table_is_powers_of_ten : Mfi.Gen.EXP_10_I80F48 = Mfi.Fx.POW10FX := Mfi.ConstL.exp10_table_exact

section whole_instructions
open Mfi Mfi.World Mfi.Gen Mfi.Gen.Acc

/-! ### the whole instruction (Mfi/Model/World.lean) -/

/-- **world_bankruptcy_spec**: `lending_pool_handle_bankruptcy` goes through only
    * in a group that is not paused, on an account and a bank of that group, the bank one of the program's own and neither
      paused nor killed, the account neither in receivership nor in a flash loan (regenerated account checks, interpreted);
    * for a signer who may settle: anyone if the bank opted in, else the group admin or the risk admin;
    * when the risk engine's bankruptcy assessment of the account's portfolio AS STORED passes;
    and then what it books is `Bank.settleBankruptcy` of the bank ACCRUED to the current time on the account's position in
    that bank (theorems settle_spec / debt_cleared / socialize_spec apply to it), the insurance vault pays the covered
    amount rounded up, the account is disabled, and a bank whose deposits were consumed is killed. -/
theorem world_bankruptcy_spec {c : Ctx} {available : Int} {o : BkrOut} (h : World.bankruptcy c available = .ok o) :
    c.g.paused = false ∧ c.a.group = c.g.key ∧ c.b.group = c.g.key ∧ tagIs .marginfi c.b.books.assetTag = true ∧
    hasFlag c.a.flags ACCOUNT_IN_RECEIVERSHIP = false ∧ hasFlag c.a.flags ACCOUNT_IN_FLASHLOAN = false ∧
    Bank.bankruptcyAuthorized (hasFlag c.b.books.flags PERMISSIONLESS_BAD_DEBT_SETTLEMENT_FLAG) c.signer c.g.admin c.g.riskAdmin = true ∧
    (∃ s, Gate.OpState.ofInt c.b.opState = some s ∧ Gate.validateBankState s .failsInPausedState = none) ∧
    (∃ ps eq, portfolio c c.a.slots c.b.books = .ok ps ∧ Risk.checkBankrupt ps = .ok eq) ∧
    ∃ b i x st, Bank.accrueInterest c.b.books c.b.ir c.now = .ok b ∧ Account.findIdx c.a.slots c.b.key = some i ∧
      balAt c.a.slots i = .ok x ∧ Bank.settleBankruptcy b x available c.now = .ok st ∧
      o.books = st.bank ∧ o.slots = c.a.slots.set i (ofBal c.b.key st.bal) ∧ o.insuranceTokens = st.coveredUp ∧
      o.opState = (if st.kill then 3 else c.b.opState) ∧ o.flags = c.a.flags ||| ACCOUNT_DISABLED.toNat := by
  unfold World.bankruptcy at h
  obtain ⟨_, hc, h⟩ := Res.bind_ok h
  obtain ⟨_, hs, h⟩ := Res.bind_ok h
  obtain ⟨_, ha, h⟩ := Res.bind_ok h
  obtain ⟨ps, hps, h⟩ := Res.bind_ok h
  obtain ⟨eq, heq, h⟩ := Res.bind_ok h
  obtain ⟨b, hb, h⟩ := Res.bind_ok h
  have hc' := runChecks_ok hc
  simp only [checks, List.forall_mem_cons, List.not_mem_nil, false_imp_iff, implies_true, and_true] at hc'
  simp [evalChk, Ctx.env, flBit, flagsOf, AccV.key] at hc'
  obtain ⟨c1, c2, c3, c4, c5, c6⟩ := hc'
  split at h
  · cases h
  · rename_i i hi
    obtain ⟨x, hx, h⟩ := Res.bind_ok h
    obtain ⟨st, hst, h⟩ := Res.bind_ok h
    injection h with h
    subst h
    exact ⟨c1, c4, c2, c3, c5, c6, Bank.chk_ok ha, bankState_ok hs, ⟨ps, eq, hps, heq⟩,
      b, i, x, st, hb, hi, hx, hst, rfl, rfl, rfl, rfl, rfl⟩

/-- **world_tx_every_settlement_is_of_real_bad_debt**: every bankruptcy settlement of a COMMITTED transaction of the world machine ran
    on a reached state on which the risk engine's own assessment found the account bankrupt (unweighted assets below liabilities and
    below ten cents), the account was neither in receivership nor inside a flash loan, and the signer was the group admin, the risk
    admin, or anyone if the bank opted into permissionless settlement — whatever else the transaction contains -/
theorem world_tx_every_settlement_is_of_real_bad_debt {w w' : WState} {tx : List TOp} (h : w.runTx tx = some w')
    {i ai bi signer : Nat} {available : Int} (hi : tx[i]? = some (.ix (.bankruptcy ai bi signer available))) :
    ∃ (wi : WState) (a : AcctV) (b : WBank) (o : BkrOut), w.before tx i = some wi ∧ wi.accts[ai]? = some a ∧ wi.banks[bi]? = some b ∧
      World.bankruptcy (wi.ctx a b signer b.v.liquidityVault 0) available = .ok o ∧
      hasFlag a.flags ACCOUNT_IN_RECEIVERSHIP = false ∧ hasFlag a.flags ACCOUNT_IN_FLASHLOAN = false ∧
      Bank.bankruptcyAuthorized (hasFlag b.v.books.flags PERMISSIONLESS_BAD_DEBT_SETTLEMENT_FLAG) signer wi.g.admin wi.g.riskAdmin = true ∧
      ∃ ps eq, portfolio (wi.ctx a b signer b.v.liquidityVault 0) a.slots b.v.books = .ok ps ∧ Risk.checkBankrupt ps = .ok eq ∧
        eq.1 < eq.2 ∧ eq.1 < BANKRUPT_THRESHOLD := by
  obtain ⟨wi, a, b, o, hbef, ha, hb, ho⟩ := tx_bankruptcy_ran h hi
  obtain ⟨_, _, _, _, hr, hf, hauth, _, ⟨ps, eq, hps, hbk⟩, _⟩ := world_bankruptcy_spec ho
  obtain ⟨e1, e2⟩ := eq
  obtain ⟨h1, h2, _, _⟩ := bankrupt_only_if hbk
  exact ⟨wi, a, b, o, hbef, ha, hb, ho, hr, hf, hauth, ps, (e1, e2), hps, hbk, h1, h2⟩

/-- … in particular a bank that is paused or was killed by an earlier bankruptcy settles nothing -/
theorem world_bankruptcy_needs_live_bank (c : Ctx) (available : Int)
    (h : Gate.OpState.ofInt c.b.opState = some .paused ∨ Gate.OpState.ofInt c.b.opState = some .killedByBankruptcy) :
    (World.bankruptcy c available).isOk = false := by
  cases hr : World.bankruptcy c available with
  | error e => rfl
  | ok o =>
    obtain ⟨_, _, _, _, _, _, _, ⟨s, hs, hv⟩, _⟩ := world_bankruptcy_spec hr
    rcases h with h | h <;> rw [h] at hs <;> injection hs with hs <;> subst hs <;> simp [Gate.validateBankState] at hv

end whole_instructions

end Mfi.Props.C07
