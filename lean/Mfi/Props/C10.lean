/-
  C10 — Receivership liquidation is bracketed, restricted, and cannot worsen health.

  Theorems about Mfi/Model/Tx.lean (`validateInstructions` = validate_instructions + ix_utils.rs, diffed
  against the REAL functions on generated transaction shapes by the `tx` family; its lists regenerated from
  the source) and about whole transactions (`run`): every handler part that is not about the transaction
  shape is an arbitrary oracle, so the theorems hold whatever health / balances / signers do.
-/
import Mfi.Model.Tx
import Mfi.Lemmas.TxLem
import Mfi.Lemmas.ResL
import Mfi.Lemmas.SkelL
import Mfi.Lemmas.AccL
import Mfi.Model.Risk
import Mfi.Props.C09
import Mfi.Lemmas.WorldL
import Mfi.Lemmas.WorldRecvL

namespace Mfi.Props.C10
open Mfi Mfi.Tx Mfi.Gen

/-- everything an accepted `validate_instructions` guarantees about the transaction -/
structure ValidSpec (ixs : List Ix) (cur s e : Nat) : Prop where
  curIx : ∃ c, ixs[cur]? = some c ∧ c.prog = MRGN
  notLast : cur < ixs.length - 1
  programs : ∀ y ∈ ixs, TxL.allowedPrograms.contains y.prog = true
  unique : ∀ i j (hi : i < ixs.length) (hj : j < ixs.length),
    isStartOf s ixs[i] = true → isStartOf s ixs[j] = true → i = j
  pre : ∃ k, ∃ hk : k < ixs.length, isStartOf s ixs[k] = true ∧
    ∀ j (hj : j < k), ixs[j].prog = COMPUTE ∨ ∃ x, ixs[j].disc = some x ∧ TxL.firstWhitelist.contains (ixs[j].prog, x) = true
  last : ∃ x, ixs.getLast? = some x ∧ x.prog = MRGN ∧ x.disc = some e
  exclusive : ∀ y ∈ ixs, y.prog = MRGN → ∃ x, y.disc = some x ∧ (exclusiveList s e).contains x = true

theorem valid_spec {ixs : List Ix} {cur s e : Nat} (h : validateInstructions ixs cur 1 s e = .ok ()) :
    ValidSpec ixs cur s e := by
  unfold validateInstructions at h
  obtain ⟨_, h1, h⟩ := Res.bind_ok h
  obtain ⟨_, h2, h⟩ := Res.bind_ok h
  obtain ⟨_, h3, h⟩ := Res.bind_ok h
  obtain ⟨_, h4, h⟩ := Res.bind_ok h
  simp only [ne_eq, not_true_eq_false, ↓reduceIte] at h
  cases hc : ixs[cur]? with
  | none => simp only [hc] at h; cases h
  | some c =>
    simp only [hc] at h
    split at h
    · cases h
    · rename_i hp
      split at h
      · rename_i hl
        exact ⟨⟨c, hc, by simpa using hp⟩, hl, programs_all h1, firstLoop_unique h2, firstLoop_prefix h2,
          last_spec h3, exclusive_all h4⟩
      · cases h

/-- an accepted bracket has at least two instructions and the start is the FIRST program instruction after
    compute-budget / whitelisted refresh and record-init instructions, the end is the LAST instruction,
    only allowed programs appear, and of this program only start, end, record-init, withdraw and repay
    (plus the integration withdraws) -/
theorem bracket_shape {ixs : List Ix} {cur : Nat} {c : Ix} (hc : ixs[cur]? = some c) (hs : isStartOf D_START_LIQ c = true)
    (h : validateInstructions ixs cur 1 D_START_LIQ D_END_LIQ = .ok ()) :
    (∀ j (hj : j < cur), ∃ hj' : j < ixs.length,
        ixs[j].prog = COMPUTE ∨ ∃ x, ixs[j].disc = some x ∧ TxL.firstWhitelist.contains (ixs[j].prog, x) = true) ∧
    (∃ x, ixs.getLast? = some x ∧ x.prog = MRGN ∧ x.disc = some D_END_LIQ) ∧
    cur + 1 < ixs.length ∧
    (∀ y ∈ ixs, TxL.allowedPrograms.contains y.prog = true) ∧
    (∀ y ∈ ixs, y.prog = MRGN → ∃ x, y.disc = some x ∧
        (x = D_START_LIQ ∨ x = D_END_LIQ ∨ x = D_INIT_RECORD ∨ x = D_WITHDRAW ∨ x = D_REPAY ∨ x = 7 ∨ x = 8)) := by
  have v := valid_spec h
  obtain ⟨k, hk, sk, hp⟩ := v.pre
  have hcur : cur < ixs.length := by
    rcases Nat.lt_or_ge cur ixs.length with h | h
    · exact h
    · rw [List.getElem?_eq_none h] at hc; cases hc
  have hcc : ixs[cur] = c := by
    have := List.getElem?_eq_getElem hcur
    rw [this] at hc; exact Option.some.inj hc
  have hk_eq : k = cur := v.unique k cur hk hcur sk (by rw [hcc]; exact hs)
  subst hk_eq
  refine ⟨fun j hj => ⟨by omega, hp j hj⟩, v.last, by have := v.notLast; omega, v.programs, ?_⟩
  intro y hy hm
  obtain ⟨x, hd, hx⟩ := v.exclusive y hy hm
  refine ⟨x, hd, ?_⟩
  have : ∀ z, (exclusiveList D_START_LIQ D_END_LIQ).contains z = true →
      (z = D_START_LIQ ∨ z = D_END_LIQ ∨ z = D_INIT_RECORD ∨ z = D_WITHDRAW ∨ z = D_REPAY ∨ z = 7 ∨ z = 8) := by
    intro z hz
    have hz' : z ∈ exclusiveList D_START_LIQ D_END_LIQ := by simpa using hz
    have : exclusiveList D_START_LIQ D_END_LIQ = [0, 1, 4, 5, 6, 7, 8] := by decide
    rw [this] at hz'
    simp only [List.mem_cons, List.mem_nil_iff, or_false] at hz'
    simp only [D_START_LIQ, D_END_LIQ, D_INIT_RECORD, D_WITHDRAW, D_REPAY]
    omega
  exact this x hx


/-! ### whole transactions -/

theorem getElem?_of_split {pre suf post : List Ix} {ix : Ix} {ixs : List Ix} {k : Nat}
    (h : ixs = pre ++ (ix :: suf) ++ post) (hk : pre.length = k) : ixs[k]? = some ix := by
  subst h; subst hk
  simp

/-- two validated starts in one transaction are the same instruction -/
theorem started_unique {ixs : List Ix} {i j a b : Nat} (h1 : Started ixs i a) (h2 : Started ixs j b) :
    i = j ∧ a = b := by
  obtain ⟨x, hx, xp, xa, hv⟩ := h1
  obtain ⟨y, hy, yp, ya, hw⟩ := h2
  have hi : i < ixs.length := by
    rcases Nat.lt_or_ge i ixs.length with h | h
    · exact h
    · rw [List.getElem?_eq_none h] at hx; cases hx
  have hj : j < ixs.length := by
    rcases Nat.lt_or_ge j ixs.length with h | h
    · exact h
    · rw [List.getElem?_eq_none h] at hy; cases hy
  have ex : ixs[i] = x := by rw [List.getElem?_eq_getElem hi] at hx; exact Option.some.inj hx
  have ey : ixs[j] = y := by rw [List.getElem?_eq_getElem hj] at hy; exact Option.some.inj hy
  have ymem : y ∈ ixs := ey ▸ List.getElem_mem hj
  have key : ∀ s e, (s = D_START_LIQ ∧ e = D_END_LIQ) ∨ (s = D_START_DELEV ∧ e = D_END_DELEV) →
      x.disc = some s → validateInstructions ixs i 1 s e = .ok () → i = j := by
    intro s e hse xd hval
    have v := valid_spec hval
    obtain ⟨z, yd, hz⟩ := v.exclusive y ymem yp
    have ys : y.disc = some s := by
      have n1 : (exclusiveList D_START_LIQ D_END_LIQ).contains D_START_DELEV = false := by decide
      have n2 : (exclusiveList D_START_DELEV D_END_DELEV).contains D_START_LIQ = false := by decide
      rcases hw with ⟨yd', _⟩ | ⟨yd', _⟩ <;> rcases hse with ⟨rfl, rfl⟩ | ⟨rfl, rfl⟩
      · exact yd'
      · rw [yd] at yd'; have := Option.some.inj yd'; subst this; rw [n2] at hz; cases hz
      · rw [yd] at yd'; have := Option.some.inj yd'; subst this; rw [n1] at hz; cases hz
      · exact yd'
    exact v.unique i j hi hj (by rw [ex]; simp [isStartOf, xp, xd]) (by rw [ey]; simp [isStartOf, yp, ys])
  have hij : i = j := by
    rcases hv with ⟨xd, hval⟩ | ⟨xd, hval⟩
    · exact key _ _ (Or.inl ⟨rfl, rfl⟩) xd hval
    · exact key _ _ (Or.inr ⟨rfl, rfl⟩) xd hval
  subst hij
  rw [ex] at ey
  subst ey
  rw [xa] at ya
  exact ⟨rfl, Option.some.inj ya⟩

/-- invariant: a set receivership flag is backed by a validated start earlier in this transaction -/
def RecvInv (ixs : List Ix) (k : Nat) (st : State) : Prop :=
  ∀ a, (st a).recv = true → ∃ i, i < k ∧ Started ixs i a

theorem runAux_inv {ixs : List Ix} {orc : Nat → Bool} :
    ∀ (suf pre post : List Ix) (k : Nat) (st st' : State), ixs = pre ++ suf ++ post → pre.length = k →
      runAux ixs orc suf k st = .ok st' → RecvInv ixs k st → RecvInv ixs (k + suf.length) st' := by
  intro suf
  induction suf with
  | nil =>
    intro pre post k st st' _ _ h hi
    unfold runAux at h
    injection h with h; subst h
    simpa using hi
  | cons ix rest ih =>
    intro pre post k st st' hsplit hk h hi
    unfold runAux at h
    cases he : exec ixs orc k ix st with
    | error e => rw [he] at h; cases h
    | ok st1 =>
      rw [he] at h
      have hget := getElem?_of_split hsplit hk
      have hi1 : RecvInv ixs (k + 1) st1 := by
        intro a ha
        rcases exec_recv hget he a ha with h0 | h0
        · obtain ⟨i, hik, hs⟩ := hi a h0
          exact ⟨i, by omega, hs⟩
        · exact ⟨k, by omega, h0⟩
      have := ih (pre ++ [ix]) post (k + 1) st1 st' (by rw [hsplit]; simp) (by simp [hk]) h hi1
      simpa [Nat.add_assoc, Nat.add_comm 1] using this

theorem runAux_snoc {ixs : List Ix} {orc : Nat → Bool} {x : Ix} :
    ∀ (l : List Ix) (k : Nat) (st st' : State), runAux ixs orc (l ++ [x]) k st = .ok st' →
      ∃ st1, runAux ixs orc l k st = .ok st1 ∧ exec ixs orc (k + l.length) x st1 = .ok st' := by
  intro l
  induction l with
  | nil =>
    intro k st st' h
    simp only [List.nil_append] at h
    unfold runAux at h
    cases he : exec ixs orc k x st with
    | error e => rw [he] at h; cases h
    | ok st1 =>
      rw [he] at h
      unfold runAux at h
      injection h with h; subst h
      exact ⟨st, by unfold runAux; rfl, by simpa using he⟩
  | cons y rest ih =>
    intro k st st' h
    simp only [List.cons_append] at h
    unfold runAux at h
    cases he : exec ixs orc k y st with
    | error e => rw [he] at h; cases h
    | ok st1 =>
      rw [he] at h
      obtain ⟨st2, h1, h2⟩ := ih (k + 1) st1 st' h
      refine ⟨st2, ?_, ?_⟩
      · unfold runAux; rw [he]; exact h1
      · simpa [Nat.add_assoc, Nat.add_comm 1] using h2

/-- the last instruction of a transaction that contains a validated start, and the state before it -/
theorem last_step {ixs : List Ix} {orc : Nat → Bool} {st0 st' : State} {i a : Nat}
    (hrun : run ixs orc st0 = .ok st') (h0 : ∀ a, (st0 a).recv = false) (hs : Started ixs i a) :
    ∃ (x : Ix) (b : Nat) (st1 : State), ixs.getLast? = some x ∧ x.prog = MRGN ∧ x.acct0 = some b ∧
      (x.disc = some D_END_LIQ ∨ x.disc = some D_END_DELEV) ∧
      RecvInv ixs (ixs.length - 1) st1 ∧ (st1 b).recv = true ∧ (st' b).recv = false ∧ (∀ c, c ≠ b → st' c = st1 c) := by
  obtain ⟨sx, hsx, sp, sa, hv⟩ := hs
  have hlast : ∃ x e, ixs.getLast? = some x ∧ x.prog = MRGN ∧ x.disc = some e ∧ (e = D_END_LIQ ∨ e = D_END_DELEV) := by
    rcases hv with ⟨_, hval⟩ | ⟨_, hval⟩
    · obtain ⟨x, h1, h2, h3⟩ := (valid_spec hval).last
      exact ⟨x, _, h1, h2, h3, Or.inl rfl⟩
    · obtain ⟨x, h1, h2, h3⟩ := (valid_spec hval).last
      exact ⟨x, _, h1, h2, h3, Or.inr rfl⟩
  obtain ⟨x, e, hl, xp, xd, he⟩ := hlast
  have hsplit : ixs = ixs.dropLast ++ [x] := by
    have hne : ixs ≠ [] := by intro hnil; rw [hnil] at hl; cases hl
    have := List.dropLast_concat_getLast hne
    rw [List.getLast?_eq_some_getLast hne] at hl
    rw [← Option.some.inj hl]
    exact this.symm
  unfold run at hrun
  have hrun' : runAux ixs orc (ixs.dropLast ++ [x]) 0 st0 = .ok st' := by rw [← hsplit]; exact hrun
  obtain ⟨st1, hr1, hx⟩ := runAux_snoc ixs.dropLast 0 st0 st' hrun'
  have inv0 : RecvInv ixs 0 st0 := by intro a ha; rw [h0 a] at ha; cases ha
  have inv1 := runAux_inv ixs.dropLast [] [x] 0 st0 st1 (by simpa using hsplit) rfl hr1 inv0
  obtain ⟨b, xb⟩ := exec_end_acct xp xd he hx
  obtain ⟨e1, e2, e3⟩ := exec_end xp xd he xb hx
  refine ⟨x, b, st1, hl, xp, xb, ?_, ?_, e1, e2, e3⟩
  · rcases he with rfl | rfl
    · exact Or.inl xd
    · exact Or.inr xd
  · simpa [List.length_dropLast] using inv1


/-- **receivership_never_survives**: whatever the instructions of a transaction are and whatever the
    health / balance / signer checks decide, if the transaction succeeds and no account was in
    receivership before it, no account is in receivership after it. -/
theorem receivership_never_survives (ixs : List Ix) (orc : Nat → Bool) (st0 st' : State)
    (h0 : ∀ a, (st0 a).recv = false) (hrun : run ixs orc st0 = .ok st') : ∀ a, (st' a).recv = false := by
  intro a
  cases hra : (st' a).recv with
  | false => rfl
  | true =>
    exfalso
    have inv0 : RecvInv ixs 0 st0 := by intro a ha; rw [h0 a] at ha; cases ha
    have invN := runAux_inv ixs [] [] 0 st0 st' (by simp) rfl hrun inv0
    obtain ⟨i, _, hs⟩ := invN a hra
    obtain ⟨x, b, st1, _, _, _, _, inv1, r1, r2, r3⟩ := last_step hrun h0 hs
    have hab : a ≠ b := by intro hab; subst hab; rw [r2] at hra; cases hra
    have ha1 : (st1 a).recv = true := by rw [← r3 a hab]; exact hra
    obtain ⟨i1, _, s1⟩ := inv1 a ha1
    obtain ⟨i2, _, s2⟩ := inv1 b r1
    exact hab (started_unique s1 s2).2

/-- **bracket_is_closed_by_the_matching_end**: in a successful transaction, a validated start for account
    `a` means the LAST instruction is this program's end instruction of the same kind FOR THE SAME ACCOUNT,
    and it executed (so its health / premium checks passed). -/
theorem bracket_closed_by_matching_end (ixs : List Ix) (orc : Nat → Bool) (st0 st' : State) (i a : Nat)
    (h0 : ∀ a, (st0 a).recv = false) (hrun : run ixs orc st0 = .ok st') (hs : Started ixs i a) :
    ∃ x, ixs.getLast? = some x ∧ x.prog = MRGN ∧ x.acct0 = some a ∧
      ((∃ sx, ixs[i]? = some sx ∧ sx.disc = some D_START_LIQ ∧ x.disc = some D_END_LIQ) ∨
       (∃ sx, ixs[i]? = some sx ∧ sx.disc = some D_START_DELEV ∧ x.disc = some D_END_DELEV)) ∧
      i < ixs.length - 1 := by
  obtain ⟨x, b, st1, hl, xp, xb, _, inv1, r1, _, _⟩ := last_step hrun h0 hs
  obtain ⟨i2, _, s2⟩ := inv1 b r1
  obtain ⟨hij, hab⟩ := started_unique hs s2
  subst hab
  obtain ⟨sx, hsx, _, _, hv⟩ := hs
  refine ⟨x, hl, xp, xb, ?_, ?_⟩
  · rcases hv with ⟨sd, hval⟩ | ⟨sd, hval⟩
    · obtain ⟨y, hy, _, yd⟩ := (valid_spec hval).last
      rw [hl] at hy; have := Option.some.inj hy; subst this
      exact Or.inl ⟨sx, hsx, sd, yd⟩
    · obtain ⟨y, hy, _, yd⟩ := (valid_spec hval).last
      rw [hl] at hy; have := Option.some.inj hy; subst this
      exact Or.inr ⟨sx, hsx, sd, yd⟩
  · rcases hv with ⟨_, hval⟩ | ⟨_, hval⟩
    · exact (valid_spec hval).notLast
    · exact (valid_spec hval).notLast

/-- a start is refused (whatever else) when the account is already in receivership, in a flash loan or
    disabled, and a second start in the same transaction is refused: at most one account is ever in
    receivership inside a transaction -/
theorem one_receivership_at_a_time (ixs : List Ix) (orc : Nat → Bool) :
    ∀ (suf pre post : List Ix) (k : Nat) (st st' : State), ixs = pre ++ suf ++ post → pre.length = k →
      runAux ixs orc suf k st = .ok st' → RecvInv ixs k st →
      ∀ a b, (st' a).recv = true → (st' b).recv = true → a = b := by
  intro suf pre post k st st' hsplit hk h hi a b ha hb
  have inv := runAux_inv suf pre post k st st' hsplit hk h hi
  obtain ⟨_, _, s1⟩ := inv a ha
  obtain ⟨_, _, s2⟩ := inv b hb
  exact (started_unique s1 s2).2

/-! ### the handler side: tables regenerated from the source -/

section tables
open Mfi.Gen.Skel

/-- only `start_receivership` sets ACCOUNT_IN_RECEIVERSHIP and only `end_receivership` clears it; nothing
    writes the flag word wholesale except the account transfer (which first refuses accounts in
    receivership or in a flash loan) -/
theorem receivership_flag_writers :
    (∀ w ∈ TxL.flagWrites, w.2.2 = TxL.Flag.inReceivership →
      (w.1 = .fn_start_receivership ∧ w.2.1 = true) ∨ (w.1 = .fn_end_receivership ∧ w.2.1 = false)) ∧
    (∀ w ∈ TxL.flagWrites, w.2.2 = TxL.Flag.rawCopy →
      w.1 = .fn_transfer_to_new_account ∨ w.1 = .fn_transfer_to_new_account_pda) ∧
    (∀ l ∈ [transfer_to_new_account, transfer_to_new_account_pda],
      occursBefore l (· == .acctFlag .inReceivership) (· == .copyFlags) = true ∧
      occursBefore l (· == .acctFlag .inFlashloan) (· == .copyFlags) = true) := by decide

/-- start: the maintenance-health precondition is evaluated before the flag is set, the transaction
    shape is validated in the same instruction; end: no CPI, the health comparison comes before the
    flag is cleared, the flag and the receiver are ALWAYS cleared on the success path (no early
    `return Ok`), classic liquidation checks the premium -/
theorem handler_shape :
    start_receivership = [.healthPreLiq, .setFlag .inReceivership] ∧
    start_liquidation = [.callStartReceivership, .validateIxs] ∧
    start_deleverage = [.setFlag .inDeleverage, .callStartReceivership, .validateIxs] ∧
    end_receivership = [.healthPreLiq, .worseHealthCheck, .unsetFlag .inReceivership, .clearReceiver] ∧
    end_liquidation = [.notCpi, .callEndReceivership, .premiumCheck] ∧
    end_deleverage = [.notCpi, .unsetFlag .inDeleverage, .callEndReceivership] := by decide

/-- clearing the flag and the receiver, and the start-side health pre-condition and flag, are unconditional;
    in end_liquidation only the premium check is conditional (it is waived for accounts under five dollars) -/
theorem bracket_unconditional :
    condAt end_receivership end_receivership_cond (· == .unsetFlag .inReceivership) = some 0 ∧
    condAt end_receivership end_receivership_cond (· == .clearReceiver) = some 0 ∧
    condAt end_receivership end_receivership_cond (· == .healthPreLiq) = some 0 ∧
    allUnconditional start_receivership_cond = true ∧ allUnconditional start_liquidation_cond = true ∧
    end_liquidation_cond = [0, 0, 1] := by decide

/-- the checks of `validate_instructions` are all present, and it is called with the (start, end)
    discriminator pairs the model uses -/
theorem validate_checks_present :
    TxL.checks = [.load, .first, .last, .exclusive, .stackHeight, .sysvarCpi] ∧
    TxL.liqPair = (D_START_LIQ, D_END_LIQ) ∧ TxL.delevPair = (D_START_DELEV, D_END_DELEV) ∧
    TxL.firstUsesStartArg = true ∧ TxL.lastUsesEndArg = true := by decide

/-- account constraints: start only on an account that is not in receivership / flash loan / disabled and
    whose liquidation record it is; end only while in receivership, signed by the recorded receiver -/
theorem bracket_constraints :
    (∀ s ∈ [Acc.S.StartLiquidation, .StartDeleverage],
      Acc.hasCons s .f_marginfi_account (.flagClear .f_marginfi_account .fl_ACCOUNT_IN_RECEIVERSHIP) = true ∧
      Acc.hasCons s .f_marginfi_account (.flagClear .f_marginfi_account .fl_ACCOUNT_IN_FLASHLOAN) = true ∧
      Acc.hasCons s .f_marginfi_account (.flagClear .f_marginfi_account .fl_ACCOUNT_DISABLED) = true ∧
      Acc.hasOneOf s .f_marginfi_account .f_liquidation_record = true) ∧
    (∀ s ∈ [Acc.S.EndLiquidation, .EndDeleverage],
      Acc.hasCons s .f_marginfi_account (.flagSet .f_marginfi_account .fl_ACCOUNT_IN_RECEIVERSHIP) = true ∧
      Acc.hasOneOf s .f_marginfi_account .f_liquidation_record = true) ∧
    Acc.hasOneOf .EndLiquidation .f_liquidation_record .f_liquidation_receiver = true ∧
    Acc.isSigner .EndLiquidation .f_liquidation_receiver = true ∧
    Acc.hasOneOf .StartDeleverage .f_group .f_risk_admin = true ∧ Acc.isSigner .StartDeleverage .f_risk_admin = true ∧
    Acc.hasOneOf .EndDeleverage .f_group .f_risk_admin = true ∧ Acc.isSigner .EndDeleverage .f_risk_admin = true := by
  decide

end tables

/-! ### non-vacuity: a well-formed bracket is accepted, and runs to completion with the flag cleared -/

def demoTx : List Ix :=
  [ { prog := COMPUTE, disc := some 30, acct0 := none, arg := 0 },
    { prog := MRGN, disc := some D_START_LIQ, acct0 := some 7, arg := 0 },
    { prog := MRGN, disc := some D_WITHDRAW, acct0 := some 7, arg := 0 },
    { prog := MRGN, disc := some D_REPAY, acct0 := some 7, arg := 0 },
    { prog := MRGN, disc := some D_END_LIQ, acct0 := some 7, arg := 0 } ]

example : validateInstructions demoTx 1 1 D_START_LIQ D_END_LIQ = .ok () := by rfl
example : Started demoTx 1 7 := ⟨_, rfl, rfl, rfl, Or.inl ⟨rfl, by rfl⟩⟩
example : (run demoTx (fun i => decide (i < 1000)) (fun _ => ⟨false, false, false, false⟩)).isOk = true := by decide

/-! ### the numbers of the property text (constants regenerated from the real crates on every run) -/

/-- "the configured maximum premium (at least 5 %)", "accounts whose assets were worth under five dollars" -/
theorem premium_and_closeout_numbers :
    (Mfi.Gen.LIQUIDATION_BONUS_FEE_MINIMUM * 20 - Mfi.Fx.ONE).natAbs < 20 ∧
    Mfi.Gen.LIQUIDATION_CLOSEOUT_DOLLAR_THRESHOLD = 5 * Mfi.Fx.ONE := by decide

/-! ### the numeric conditions at the end of the bracket (`end_liquidation` / `end_deleverage`)

`Risk.endLiquidation` / `Risk.endDeleverage` model the end handlers' verdict from the start-of-bracket snapshot in the
liquidation record and the portfolio at the end; the `health` family diffs that verdict against the REAL instructions
through real dispatch (`risk.endliq` / `risk.enddelev` lines: snapshots chosen around the current valuation). -/

section numeric
open Mfi.Risk Mfi.Fx

/-- **start_only_when_unhealthy**: an accepted `start_liquidation` means the account's maintenance health is NOT positive
    (weighted assets at or below weighted liabilities), and the snapshot stored for the end of the bracket is exactly
    the maintenance and equity valuation of the portfolio at that moment -/
theorem start_only_when_unhealthy {ps : List Pos} {c : PreCache} (h : startReceivership ps false = .ok c) :
    ∃ cm ce, components ps .maint = .ok cm ∧ components ps .equity = .ok ce ∧
      cm.assets - cm.liabs ≤ 0 ∧ c = { aMaint := cm.assets, lMaint := cm.liabs, aEq := ce.assets, lEq := ce.liabs } := by
  unfold startReceivership at h
  obtain ⟨⟨hh, a, l⟩, hpl, h⟩ := Res.bind_ok h
  obtain ⟨ce, hce, h⟩ := Res.bind_ok h
  injection h with h
  unfold preLiquidation at hpl
  obtain ⟨cm, hcm, hpl⟩ := Res.bind_ok hpl
  obtain ⟨h2, hh2, hpl⟩ := Res.bind_ok hpl
  have hsub : h2 = cm.assets - cm.liabs := by
    have := Mfi.Props.C09.rmath_ok hh2
    unfold sub? chk at this
    split at this
    · injection this with this; exact this.symm
    · cases this
  split at hpl
  · cases hpl
  rename_i hnot
  injection hpl with hpl; injection hpl with _ hpl; injection hpl with ha hl
  refine ⟨cm, ce, hcm, hce, ?_, ?_⟩
  · simp at hnot; omega
  · subst ha; subst hl; exact h.symm

/-- what an accepted end of a receivership guarantees, whoever closes it -/
theorem end_receivership_spec {pre : PreCache} {ps : List Pos} {ig : Bool} {seized repaid : Int}
    (h : endReceivership pre ps ig = .ok (seized, repaid)) :
    ∃ cm ce, components ps .maint = .ok cm ∧ components ps .equity = .ok ce ∧
      pre.aMaint - pre.lMaint ≤ cm.assets - cm.liabs ∧
      (ig = false → cm.assets - cm.liabs ≤ 0) ∧
      seized = pre.aEq - ce.assets ∧ repaid = pre.lEq - ce.liabs := by
  unfold endReceivership at h
  obtain ⟨ph, hph, h⟩ := Res.bind_ok h
  obtain ⟨⟨post, a, l⟩, hpl, h⟩ := Res.bind_ok h
  obtain ⟨ce, hce, h⟩ := Res.bind_ok h
  split at h
  · cases h
  rename_i hworse
  obtain ⟨sz, hsz, h⟩ := Res.bind_ok h
  obtain ⟨rp, hrp, h⟩ := Res.bind_ok h
  injection h with h; injection h with h1 h2
  unfold preLiquidation at hpl
  obtain ⟨cm, hcm, hpl⟩ := Res.bind_ok hpl
  obtain ⟨hh, hhh, hpl⟩ := Res.bind_ok hpl
  have hsub : hh = cm.assets - cm.liabs := by
    have := Mfi.Props.C09.rmath_ok hhh
    unfold sub? chk at this
    split at this
    · injection this with this; exact this.symm
    · cases this
  have hphv : ph = pre.aMaint - pre.lMaint := by
    unfold subOp at hph; split at hph
    · injection hph with hph; exact hph.symm
    · cases hph
  have hszv : sz = pre.aEq - ce.assets := by
    unfold subOp at hsz; split at hsz
    · injection hsz with hsz; exact hsz.symm
    · cases hsz
  have hrpv : rp = pre.lEq - ce.liabs := by
    unfold subOp at hrp; split at hrp
    · injection hrp with hrp; exact hrp.symm
    · cases hrp
  split at hpl
  · cases hpl
  rename_i hnot
  injection hpl with hpl; injection hpl with hp1 _
  refine ⟨cm, ce, hcm, hce, ?_, ?_, ?_, ?_⟩
  · omega
  · intro hig
    subst hig
    simp at hnot
    omega
  · omega
  · omega

/-- **end_liquidation_spec**: an accepted `end_liquidation` means — maintenance health is no worse than in the snapshot
    taken at the start; and unless the account's ASSETS were worth under five dollars at the start: health is not
    positive, and the value seized is at most the value repaid times (1 + max(configured maximum, 5 %)). -/
theorem end_liquidation_spec {pre : PreCache} {ps : List Pos} {fee seized repaid : Int}
    (h : endLiquidation pre ps fee = .ok (seized, repaid)) :
    ∃ cm ce, components ps .maint = .ok cm ∧ components ps .equity = .ok ce ∧
      pre.aMaint - pre.lMaint ≤ cm.assets - cm.liabs ∧
      seized = pre.aEq - ce.assets ∧ repaid = pre.lEq - ce.liabs ∧
      (5 * ONE ≤ pre.aEq →
        cm.assets - cm.liabs ≤ 0 ∧ seized ≤ wrap ((repaid * maxPremium fee) / ONE)) := by
  unfold endLiquidation at h
  simp only at h
  obtain ⟨⟨sz, rp⟩, hend, h⟩ := Res.bind_ok h
  simp only at h
  split at h
  · cases h
  rename_i hprem
  injection h with h; injection h with h1 h2
  subst h1; subst h2
  obtain ⟨cm, ce, hcm, hce, hworse, hpos, hs, hr⟩ := end_receivership_spec hend
  refine ⟨cm, ce, hcm, hce, hworse, hs, hr, ?_⟩
  intro hfive
  have hth : Mfi.Gen.LIQUIDATION_CLOSEOUT_DOLLAR_THRESHOLD = 5 * ONE := by decide
  have hig : decide (pre.aEq < Mfi.Gen.LIQUIDATION_CLOSEOUT_DOLLAR_THRESHOLD) = false := by
    rw [hth]; simp; omega
  rw [hig] at hprem hpos
  refine ⟨hpos rfl, ?_⟩
  simp at hprem
  exact hprem

/-- the premium factor is at least 1.05 whatever the fee state says, and exactly 1 + the configured maximum above that -/
theorem max_premium_floor (fee : Int) :
    ONE + Mfi.Gen.LIQUIDATION_BONUS_FEE_MINIMUM ≤ maxPremium fee ∧ ONE + fee ≤ maxPremium fee ∧
    (maxPremium fee = ONE + fee ∨ maxPremium fee = ONE + Mfi.Gen.LIQUIDATION_BONUS_FEE_MINIMUM) := by
  unfold maxPremium; omega

/-- when the product does not leave the I80F48 range (any realistic dollar value), the bound is the plain one:
    seized x 2^48 <= repaid x (1 + premium) (+ one ulp of rounding) -/
theorem premium_bound_plain {seized repaid m : Int} (hr : inRange ((repaid * m) / ONE) = true)
    (h : seized ≤ wrap ((repaid * m) / ONE)) : seized * ONE ≤ repaid * m := by
  have hw : wrap ((repaid * m) / ONE) = (repaid * m) / ONE := by
    unfold inRange at hr
    simp only [Bool.and_eq_true, decide_eq_true_eq] at hr
    unfold wrap
    simp only
    have h128 : (2:Int) ^ 128 = 340282366920938463463374607431768211456 := by decide
    unfold Fx.MIN Fx.MAX at *
    rw [h128]
    by_cases hn : 0 ≤ (repaid * m) / ONE
    · have : (repaid * m / ONE) % 340282366920938463463374607431768211456 = repaid * m / ONE := Int.emod_eq_of_lt hn (by omega)
      rw [this]; split <;> omega
    · have hneg : repaid * m / ONE < 0 := by omega
      have : (repaid * m / ONE) % 340282366920938463463374607431768211456 = repaid * m / ONE + 340282366920938463463374607431768211456 := by
        rw [Int.emod_def]
        have hq : (repaid * m / ONE) / 340282366920938463463374607431768211456 = -1 := by omega
        rw [hq]; omega
      rw [this]; split <;> omega
  rw [hw] at h
  have := Int.ediv_mul_le (repaid * m) (show ONE ≠ 0 by decide)
  calc seized * ONE ≤ (repaid * m / ONE) * ONE := Int.mul_le_mul_of_nonneg_right h (by decide)
    _ ≤ repaid * m := this

/-- an accepted `end_deleverage`: maintenance health is no worse than at the start -/
theorem end_deleverage_spec {pre : PreCache} {ps : List Pos} {seized repaid : Int}
    (h : endDeleverage pre ps = .ok (seized, repaid)) :
    ∃ cm, components ps .maint = .ok cm ∧ pre.aMaint - pre.lMaint ≤ cm.assets - cm.liabs := by
  obtain ⟨cm, _, hcm, _, hw, _⟩ := end_receivership_spec h
  exact ⟨cm, hcm, hw⟩

/-- the snapshot a forced deleverage takes (no health condition): the maintenance and equity valuation of that moment -/
theorem start_deleverage_snapshot {ps : List Pos} {c : PreCache} (h : startReceivership ps true = .ok c) :
    ∃ cm ce, components ps .maint = .ok cm ∧ components ps .equity = .ok ce ∧
      c = { aMaint := cm.assets, lMaint := cm.liabs, aEq := ce.assets, lEq := ce.liabs } := by
  unfold startReceivership at h
  obtain ⟨⟨hh, a, l⟩, hpl, h⟩ := Res.bind_ok h
  obtain ⟨ce, hce, h⟩ := Res.bind_ok h
  injection h with h
  unfold preLiquidation at hpl
  obtain ⟨cm, hcm, hpl⟩ := Res.bind_ok hpl
  obtain ⟨h2, hh2, hpl⟩ := Res.bind_ok hpl
  split at hpl
  · rename_i hc; simp at hc
  injection hpl with hpl; injection hpl with _ hpl; injection hpl with ha hl
  refine ⟨cm, ce, hcm, hce, ?_⟩
  subst ha; subst hl; exact h.symm

/-- (non-vacuity) a full close-out of a $10 account that repays $10 passes; the same seizure for $9 repaid is refused
    for its premium; under five dollars of assets the premium is not tested -/
example : endLiquidation ⟨5 * ONE, 10 * ONE, 10 * ONE, 10 * ONE⟩ [] 0 = .ok (10 * ONE, 10 * ONE) := by decide
example : endLiquidation ⟨5 * ONE, 10 * ONE, 10 * ONE, 9 * ONE⟩ [] 0 = .error (.err Mfi.Gen.E.LiquidationPremiumTooHigh) := by decide
example : endLiquidation ⟨2 * ONE, 10 * ONE, 4 * ONE, 1 * ONE⟩ [] 0 = .ok (4 * ONE, 1 * ONE) := by decide

end numeric

section whole_instructions
open Mfi Mfi.World Mfi.Gen Mfi.Gen.Acc

/-! ### whole instructions (Mfi/Model/World.lean) -/

/-- **world_receivership_admits_only_withdraw_and_repay**: while an account carries the receivership marker, a deposit or
    a borrow is refused whoever signs; a withdrawal goes through only for collateral with a non-zero initial weight and at a
    POSITIVE low-biased real-time price of the bank — and the initial-margin check is the only step that is left to the end
    of the bracket -/
theorem world_receivership_admits_only_withdraw_and_repay (c : Ctx) (hr : flag c ACCOUNT_IN_RECEIVERSHIP = true) :
    (∀ amt up, (World.deposit c amt up).isOk = false) ∧ (∀ amt, (World.borrow c amt).isOk = false) ∧
    (∀ amt all o, World.withdraw c amt all = .ok o →
        c.b.weightInitZero = false ∧ ∃ p, withdrawPrice c = .ok p ∧ 0 < p) := by
  refine ⟨?_, ?_, ?_⟩
  · intro amt up
    cases h : World.deposit c amt up with
    | error e => rfl
    | ok o => have := (deposit_ok h).flags.2; simp [hr] at this
  · intro amt
    cases h : World.borrow c amt with
    | error e => rfl
    | ok o => have := (borrow_ok h).flags.2; simp [hr] at this
  · intro amt all o h
    have hw := withdraw_ok h
    obtain ⟨price, b, i, s, x', pre, hp, _⟩ := hw.core
    refine ⟨?_, price, hp, withdrawPrice_pos hr hp⟩
    rcases hw.checks.2.2 with h1 | h1
    · have : flag c ACCOUNT_IN_RECEIVERSHIP = false := h1
      simp [hr] at this
    · exact h1

/-! ### the receivership bracket inside whole TRANSACTIONS of the world state machine (Mfi/Model/WorldTx.lean)

The transactions are lists of whole instructions (withdraw, repay, … with the account checks, gates, accrual, books and risk
engine of `Mfi.World`), flash-loan starts / ends and liquidation starts / ends, executed atomically; the health valuations are
the risk-engine model's own. The risk admin's forced deleverage (`start_deleverage` / `end_deleverage`) is in the machine as
the second kind of bracket. -/

/-- **world_start_liquidation_spec**: `start_liquidation` goes through only with the account's own liquidation record, on an
    account not already in receivership (nor in a flash loan, nor disabled: regenerated table), when `start_receivership` accepts
    the portfolio as stored (the account is NOT healthy at maintenance level) and the transaction has the bracket shape; it
    records the receiver named, snapshots the valuation and sets the marker. -/
theorem world_start_liquidation_spec {c : RCtx} {shape : Res Unit} {o : StartLiqOut} (h : startLiquidation c shape = .ok o) :
    c.recordOk = true ∧ inRecv c.a = false ∧ shape = .ok () ∧
    (∃ ps, c.portfolio = .ok ps ∧ Mfi.Risk.startReceivership ps false = .ok o.cache) ∧
    o.flags = c.a.flags ||| ACCOUNT_IN_RECEIVERSHIP.toNat ∧ o.receiver = c.receiver :=
  startLiquidation_ok h

/-- the shape a start accepts, on transactions of the world machine: the start is the FIRST instruction and the only start, the
    LAST instruction is an end_liquidation, nothing but start, end, withdraw and repay appears, and the start is not last -/
theorem world_liquidation_shape {tx : List TOp} {cur : Nat} (h : liqShape tx cur = .ok ()) :
    ∃ t0 rest, tx = t0 :: rest ∧ isStartLiq t0 = true ∧ rest.any isStartLiq = false ∧
      ((tx.getLast?).map isEndLiq).getD false = true ∧ tx.all liqAllowed = true ∧ cur < tx.length - 1 :=
  liqShape_ok h

/-- **world_end_liquidation_spec**: `end_liquidation` goes through only with the account's own record, on an account IN
    receivership, signed by the receiver the record names, with the fee state's own wallet, at top level, when
    `Risk.endLiquidation` accepts the portfolio as it stands against the record's snapshot; it clears the marker. -/
theorem world_end_liquidation_spec {c : RCtx} {stack : Nat} {o : EndLiqOut} (h : endLiquidation c stack = .ok o) :
    c.recordOk = true ∧ inRecv c.a = true ∧ c.a.recReceiver = c.receiver ∧ c.walletOk = true ∧ stack = 1 ∧
    (∃ ps, c.portfolio = .ok ps ∧ Mfi.Risk.endLiquidation c.a.recCache ps c.feeMax = .ok (o.seized, o.repaid)) ∧
    hasFlag o.flags ACCOUNT_IN_RECEIVERSHIP = false := by
  obtain ⟨h1, h2, h3, h4, h5, h6, h7⟩ := endLiquidation_ok h
  exact ⟨h1, h2, h3, h4, h5, h6, by rw [h7]; exact recv_clear _⟩

/-- no whole instruction and no flash-loan instruction puts an account into receivership -/
theorem world_instruction_starts_no_receivership (w : WState) (op : WOp) : NoNewP inRecv w (w.step op) := step_noNewRecv w op

/-- **world_tx_no_receivership_survives**: a COMMITTED transaction of the world machine leaves no account in receivership
    (when none was before it) … -/
theorem world_tx_no_receivership_survives {w w' : WState} {tx : List TOp} (h : w.runTx tx = some w')
    (h0 : ∀ (k : Nat) (a : AcctV), w.accts[k]? = some a → inRecv a = false) :
    ∀ (k : Nat) (a : AcctV), w'.accts[k]? = some a → inRecv a = false :=
  runTx_noRecv h h0

/-- … and so over every sequence of transactions, committed or rolled back: control never survives a transaction -/
theorem world_txs_no_receivership_survives (txs : List (List TOp)) (w : WState)
    (h0 : ∀ (k : Nat) (a : AcctV), w.accts[k]? = some a → inRecv a = false) :
    ∀ (k : Nat) (a : AcctV), (w.runTxs txs).accts[k]? = some a → inRecv a = false :=
  runTxs_noRecv txs w h0

/-- **world_tx_liquidation_cannot_worsen_health**: a committed transaction that opens with `start_liquidation` of account `a0`
    naming receiver `r`: the account's maintenance health on the state the transaction FOUND was not positive; the transaction's
    last instruction is the `end_liquidation` of the same account, signed by `r`; and on the state the bracket LEFT — whatever the
    withdrawals and repayments in between did — the maintenance health is no worse than on the state found, and (unless the
    assets were worth under five dollars at the start) not positive, with the value seized (fall of the equity-valued assets
    between the two states) at most the value repaid (fall of the equity-valued liabilities) times 1 + max(configured, 5 %). -/
theorem world_tx_liquidation_cannot_worsen_health {w w' : WState} {tx : List TOp} (h : w.runTx tx = some w')
    (h0 : ∀ (k : Nat) (a : AcctV), w.accts[k]? = some a → inRecv a = false)
    {a0 r : Nat} {ok : Bool} (hs : tx[0]? = some (.startLiq a0 r ok)) :
    ∃ (a : AcctV) (ps0 : List Mfi.Risk.Pos) (m0 e0 : Mfi.Risk.Comps), w.accts[a0]? = some a ∧
      (w.rctx a ok r true 0).portfolio = .ok ps0 ∧
      Mfi.Risk.components ps0 .maint = .ok m0 ∧ Mfi.Risk.components ps0 .equity = .ok e0 ∧ m0.assets - m0.liabs ≤ 0 ∧
      ∃ (signer : Nat) (rok wok : Bool) (feeMax : Int), tx[tx.length - 1]? = some (.endLiq a0 signer rok wok feeMax) ∧ signer = r ∧
        ∃ (wl : WState) (al : AcctV) (psl : List Mfi.Risk.Pos) (ml el : Mfi.Risk.Comps), w.before tx (tx.length - 1) = some wl ∧ wl.accts[a0]? = some al ∧
          (wl.rctx al rok signer wok feeMax).portfolio = .ok psl ∧
          Mfi.Risk.components psl .maint = .ok ml ∧ Mfi.Risk.components psl .equity = .ok el ∧
          m0.assets - m0.liabs ≤ ml.assets - ml.liabs ∧
          (5 * Mfi.Fx.ONE ≤ e0.assets →
            ml.assets - ml.liabs ≤ 0 ∧
            e0.assets - el.assets ≤ Mfi.Fx.wrap (((e0.liabs - el.liabs) * Mfi.Risk.maxPremium feeMax) / Mfi.Fx.ONE)) := by
  obtain ⟨a, ps0, cache, ha, hps0, hcache, signer, rok, wok, feeMax, hlast, hsig, wl, al, psl, seized, repaid, hbl, hal, hpsl, hend⟩ :=
    tx_liquidation_closed h h0 hs
  obtain ⟨m0, e0, hm0, he0, hneg, ecache⟩ := start_only_when_unhealthy hcache
  obtain ⟨ml, el, hml, hel, hworse, hsz, hrp, hfive⟩ := end_liquidation_spec hend
  subst ecache
  refine ⟨a, ps0, m0, e0, ha, hps0, hm0, he0, hneg, signer, rok, wok, feeMax, hlast, hsig, wl, al, psl, ml, el, hbl, hal, hpsl, hml, hel, hworse, ?_⟩
  intro h5
  obtain ⟨p1, p2⟩ := hfive h5
  refine ⟨p1, ?_⟩
  rw [hsz, hrp] at p2
  exact p2

/-! #### the forced deleverage: the same bracket, for the risk admin alone -/

/-- **world_start_deleverage_spec**: `start_deleverage` goes through only signed by the GROUP'S RISK ADMIN, with the account's
    own record and group, on an account not already in receivership (nor in a flash loan, nor disabled), when the transaction has
    the deleverage bracket shape; no health condition; it records the risk admin as receiver, snapshots the valuation and sets
    both markers -/
theorem world_start_deleverage_spec {c : RCtx} {shape : Res Unit} {o : StartLiqOut} (h : startDeleverage c shape = .ok o) :
    (c.recordOk = true ∧ c.a.group = c.g.key ∧ c.g.riskAdmin = c.receiver) ∧ inRecv c.a = false ∧ shape = .ok () ∧
    (∃ ps, c.portfolio = .ok ps ∧ Mfi.Risk.startReceivership ps true = .ok o.cache) ∧
    o.flags = (c.a.flags ||| ACCOUNT_IN_DELEVERAGE.toNat) ||| ACCOUNT_IN_RECEIVERSHIP.toNat ∧ o.receiver = c.receiver :=
  startDeleverage_ok h

/-- the shape a deleverage start accepts: it is the FIRST instruction and the only such start, the LAST instruction is an
    end_deleverage, nothing but these two, withdraw and repay appears (no start / end of a liquidation either) -/
theorem world_deleverage_shape {tx : List TOp} {cur : Nat} (h : delevShape tx cur = .ok ()) :
    ∃ t0 rest, tx = t0 :: rest ∧ isStartDelev t0 = true ∧ rest.any isStartDelev = false ∧
      ((tx.getLast?).map isEndDelev).getD false = true ∧ tx.all delevAllowed = true ∧ cur < tx.length - 1 :=
  delevShape_ok h

/-- **world_end_deleverage_spec**: `end_deleverage` goes through only signed by the group's risk admin, who is the receiver the
    account's own record names, on an account IN receivership, at top level, when the maintenance health is no worse than the
    snapshot; it clears the receivership marker -/
theorem world_end_deleverage_spec {c : RCtx} {stack : Nat} {o : EndLiqOut} (h : endDeleverage c stack = .ok o) :
    (c.recordOk = true ∧ c.a.group = c.g.key ∧ c.g.riskAdmin = c.receiver) ∧ inRecv c.a = true ∧ c.a.recReceiver = c.receiver ∧ stack = 1 ∧
    (∃ ps, c.portfolio = .ok ps ∧ Mfi.Risk.endDeleverage c.a.recCache ps = .ok (o.seized, o.repaid)) ∧
    hasFlag o.flags ACCOUNT_IN_RECEIVERSHIP = false := by
  obtain ⟨h1, h2, h3, h4, h5, h6⟩ := endDeleverage_ok h
  exact ⟨h1, h2, h3, h4, h5, by rw [h6]; exact recv_clear _⟩

/-- **world_tx_deleverage_cannot_worsen_health**: a committed transaction that opens with `start_deleverage` of account `a0`
    signed by `r`: `r` is the group's risk admin and the account belongs to this group; the transaction's last instruction is the
    `end_deleverage` of the same account, signed by `r`; and on the state the bracket LEFT — whatever the withdrawals and
    repayments in between did — the account's maintenance health is no worse than on the state the transaction found -/
theorem world_tx_deleverage_cannot_worsen_health {w w' : WState} {tx : List TOp} (h : w.runTx tx = some w')
    (h0 : ∀ (k : Nat) (a : AcctV), w.accts[k]? = some a → inRecv a = false)
    {a0 r : Nat} {ok : Bool} (hs : tx[0]? = some (.startDelev a0 r ok)) :
    ∃ (a : AcctV) (ps0 : List Mfi.Risk.Pos) (m0 : Mfi.Risk.Comps), w.accts[a0]? = some a ∧ w.g.riskAdmin = r ∧ a.group = w.g.key ∧
      (w.rctx a ok r true 0).portfolio = .ok ps0 ∧ Mfi.Risk.components ps0 .maint = .ok m0 ∧
      ∃ (signer : Nat) (rok : Bool), tx[tx.length - 1]? = some (.endDelev a0 signer rok) ∧ signer = r ∧
        ∃ (wl : WState) (al : AcctV) (psl : List Mfi.Risk.Pos) (ml : Mfi.Risk.Comps), w.before tx (tx.length - 1) = some wl ∧ wl.accts[a0]? = some al ∧
          (wl.rctx al rok signer true 0).portfolio = .ok psl ∧ Mfi.Risk.components psl .maint = .ok ml ∧
          m0.assets - m0.liabs ≤ ml.assets - ml.liabs := by
  obtain ⟨a, ps0, cache, ha, hadm, hgrp, hps0, hcache, signer, rok, hlast, hsig, wl, al, psl, seized, repaid, hbl, hal, hpsl, hend⟩ :=
    tx_deleverage_closed h h0 hs
  obtain ⟨m0, e0, hm0, _, ecache⟩ := start_deleverage_snapshot hcache
  obtain ⟨ml, hml, hworse⟩ := end_deleverage_spec hend
  subst ecache
  exact ⟨a, ps0, m0, ha, hadm, hgrp, hps0, hm0, signer, rok, hlast, hsig, wl, al, psl, ml, hbl, hal, hpsl, hml, hworse⟩

/-- **world_txs_control_never_survives**: from a state in which no account is in receivership and no liquidation record names a
    receiver, after ANY sequence of transactions of the world machine — committed or rolled back; brackets of both kinds, flash
    loans, user instructions, transfers — no account is in receivership and no record names a receiver: neither the marker nor
    the control it stands for survives a transaction. (Invariant: a receiver is recorded only while the account is in receivership;
    starts set both, ends clear both, nothing else touches either.) -/
theorem world_txs_control_never_survives (txs : List (List TOp)) (w : WState)
    (h0 : ∀ (k : Nat) (a : AcctV), w.accts[k]? = some a → inRecv a = false ∧ a.recReceiver = 0) :
    ∀ (k : Nat) (a : AcctV), (w.runTxs txs).accts[k]? = some a → inRecv a = false ∧ a.recReceiver = 0 :=
  runTxs_no_control txs w h0

/-- a small world: one account without positions, no banks; 3 is the risk admin -/
def demoWorld : WState :=
  { now := 100,
    g := { key := 1, admin := 2, riskAdmin := 3, paused := false, progFeeRate := 0, window := { dailyLimit := 0, withdrawnToday := 0, lastReset := 0 } },
    accts := [{ key := 5, group := 1, authority := 7, flags := 0, slots := List.replicate 16 Account.emptySlot }],
    banks := [], dustA := fun _ => 0, dustL := fun _ => 0 }

/-- (non-vacuity) the risk admin's bracket commits; anybody else's does not; a start without its end, a deleverage closed by
    an end_liquidation, a liquidation start inside it do not; a liquidation of this (healthy: empty) account does not start -/
example : (demoWorld.runTx [.startDelev 0 3 true, .endDelev 0 3 true]).isSome = true := by decide
example : (demoWorld.runTx [.startDelev 0 2 true, .endDelev 0 2 true]).isSome = false := by decide
example : (demoWorld.runTx [.startDelev 0 3 false, .endDelev 0 3 true]).isSome = false := by decide
example : (demoWorld.runTx [.startDelev 0 3 true]).isSome = false := by decide
example : (demoWorld.runTx [.startDelev 0 3 true, .endLiq 0 3 true true 0]).isSome = false := by decide
example : (demoWorld.runTx [.startDelev 0 3 true, .startLiq 0 3 true, .endDelev 0 3 true]).isSome = false := by decide
example : (demoWorld.runTx [.startDelev 0 3 true, .ix (.tick 0), .endDelev 0 3 true]).isSome = false := by decide

end whole_instructions

end Mfi.Props.C10
