/-
  C11 — Flash loans are bracketed: health is enforced before the transaction ends.

  Theorems about Mfi/Model/Tx.lean: `canStartFlashloan` = check_flashloan_can_start (diffed against the REAL
  function by the `tx` family on generated transaction shapes), and whole transactions (`run`) in which every
  non-structural handler check is an arbitrary oracle.
-/
import Mfi.Model.Tx
import Mfi.Lemmas.TxLem
import Mfi.Lemmas.ResL
import Mfi.Lemmas.SkelL
import Mfi.Lemmas.AccL
import Mfi.Props.C10
import Mfi.Lemmas.WorldL
import Mfi.Lemmas.WorldTxL
import Mfi.Props.C05
import Mfi.Props.C07

namespace Mfi.Props.C11
open Mfi Mfi.Tx Mfi.Gen Mfi.Props.C10

/-- **start_requires_matching_end**: a flash loan starts only at top level, only when the instruction it
    names lies LATER in the same transaction, is this program's end_flashloan and targets the same account,
    and the account is not disabled, frozen, in receivership or already in a flash loan (no nesting). -/
theorem start_requires_matching_end {ixs : List Ix} {cur e key : Nat} {f : Flags}
    (h : canStartFlashloan ixs cur 1 e key f = .ok ()) :
    cur < e ∧ e < ixs.length ∧ EndAt ixs e key ∧
    f.disabled = false ∧ f.flash = false ∧ f.recv = false ∧ f.frozen = false := by
  obtain ⟨h1, h2, _, h4⟩ := canStart_spec h
  refine ⟨h1, ?_, h2, h4⟩
  obtain ⟨x, hx, _⟩ := h2
  rcases Nat.lt_or_ge e ixs.length with hl | hl
  · exact hl
  · rw [List.getElem?_eq_none hl] at hx; cases hx

/-- via CPI (stack height above the transaction level) a flash loan never starts -/
theorem start_not_via_cpi (ixs : List Ix) (cur stack e key : Nat) (f : Flags) (hs : stack ≠ 1) :
    canStartFlashloan ixs cur stack e key f ≠ .ok () := by
  unfold canStartFlashloan
  cases ixs[cur]? with
  | none => simp
  | some c =>
    simp only
    split
    · simp [err]
    · split
      · simp [err]
      · simp [hs, err]

/-- invariant: a set flash-loan flag is backed by an end_flashloan for that account that is still ahead -/
def FlashInv (ixs : List Ix) (k : Nat) (st : State) : Prop :=
  ∀ b, (st b).flash = true → ∃ e, k ≤ e ∧ EndAt ixs e b

theorem runAux_flash {ixs : List Ix} {orc : Nat → Bool} :
    ∀ (suf pre post : List Ix) (k : Nat) (st st' : State), ixs = pre ++ suf ++ post → pre.length = k →
      runAux ixs orc suf k st = .ok st' → FlashInv ixs k st → FlashInv ixs (k + suf.length) st' := by
  intro suf
  induction suf with
  | nil =>
    intro pre post k st st' _ _ h hi
    unfold runAux at h
    injection h with h; subst h
    simpa using hi
  | cons ix rest ih =>
    intro pre post k st st' hsplit hk h hi
    unfold runAux at h
    cases he : exec ixs orc k ix st with
    | error e => rw [he] at h; cases h
    | ok st1 =>
      rw [he] at h
      have hget := getElem?_of_split hsplit hk
      have hi1 : FlashInv ixs (k + 1) st1 := by
        intro b hb
        rcases exec_flash he b hb with ⟨h0, hne⟩ | ⟨e, hlt, hend⟩
        · obtain ⟨e, hke, hend⟩ := hi b h0
          refine ⟨e, ?_, hend⟩
          rcases Nat.lt_or_ge k e with hlt | hge
          · omega
          · exfalso
            have hek : e = k := by omega
            subst hek
            obtain ⟨x, hx, xp, xd, xa⟩ := hend
            rw [hget] at hx
            have := Option.some.inj hx
            subst this
            exact hne ⟨xp, xd, xa⟩
        · exact ⟨e, by omega, hend⟩
      have := ih (pre ++ [ix]) post (k + 1) st1 st' (by rw [hsplit]; simp) (by simp [hk]) h hi1
      simpa [Nat.add_assoc, Nat.add_comm 1] using this

/-- **flashloan_never_survives**: whatever the instructions of a transaction are and whatever the
    non-structural checks decide, if the transaction succeeds and no account was flagged in-flash-loan
    before it, none is afterwards. -/
theorem flashloan_never_survives (ixs : List Ix) (orc : Nat → Bool) (st0 st' : State)
    (h0 : ∀ a, (st0 a).flash = false) (hrun : run ixs orc st0 = .ok st') : ∀ a, (st' a).flash = false := by
  intro a
  cases hfa : (st' a).flash with
  | false => rfl
  | true =>
    exfalso
    have inv0 : FlashInv ixs 0 st0 := by intro b hb; rw [h0 b] at hb; cases hb
    have invN := runAux_flash ixs [] [] 0 st0 st' (by simp) rfl hrun inv0
    obtain ⟨e, hle, x, hx, _⟩ := invN a hfa
    simp only [Nat.zero_add] at hle
    rw [List.getElem?_eq_none hle] at hx
    cases hx

/-- the state before the k-th instruction of a successful run -/
theorem runAux_split {ixs : List Ix} {orc : Nat → Bool} :
    ∀ (l1 l2 : List Ix) (k : Nat) (st st' : State), runAux ixs orc (l1 ++ l2) k st = .ok st' →
      ∃ st1, runAux ixs orc l1 k st = .ok st1 ∧ runAux ixs orc l2 (k + l1.length) st1 = .ok st' := by
  intro l1
  induction l1 with
  | nil => intro l2 k st st' h; exact ⟨st, by unfold runAux; rfl, by simpa using h⟩
  | cons y rest ih =>
    intro l2 k st st' h
    simp only [List.cons_append] at h
    unfold runAux at h
    cases he : exec ixs orc k y st with
    | error e => rw [he] at h; cases h
    | ok st1 =>
      rw [he] at h
      obtain ⟨st2, h1, h2⟩ := ih l2 (k + 1) st1 st' h
      refine ⟨st2, ?_, ?_⟩
      · unfold runAux; rw [he]; exact h1
      · simpa [Nat.add_assoc, Nat.add_comm 1] using h2

/-- **end_enforces_health**: in a successful transaction every end_flashloan instruction ran its full
    initial-margin check (the oracle of that instruction said yes), on an account that is not disabled,
    frozen or in receivership, and cleared the flag. -/
theorem end_enforces_health (ixs : List Ix) (orc : Nat → Bool) (st0 st' : State) (j b : Nat) (x : Ix)
    (hrun : run ixs orc st0 = .ok st') (hx : ixs[j]? = some x) (xp : x.prog = MRGN)
    (xd : x.disc = some D_END_FLASH) (xa : x.acct0 = some b) :
    orc j = true ∧ ∃ s1 s2, exec ixs orc j x s1 = .ok s2 ∧ (s1 b).disabled = false ∧ (s1 b).recv = false ∧
      (s1 b).frozen = false ∧ (s2 b).flash = false := by
  have hj : j < ixs.length := by
    rcases Nat.lt_or_ge j ixs.length with h | h
    · exact h
    · rw [List.getElem?_eq_none h] at hx; cases hx
  have hsplit : ixs = ixs.take j ++ (x :: ixs.drop (j + 1)) := by
    have e1 : ixs[j] = x := by rw [List.getElem?_eq_getElem hj] at hx; exact Option.some.inj hx
    rw [← e1]
    simp
  unfold run at hrun
  have hrun' : runAux ixs orc (ixs.take j ++ (x :: ixs.drop (j + 1))) 0 st0 = .ok st' := by rw [← hsplit]; exact hrun
  obtain ⟨s1, _, h2⟩ := runAux_split _ _ 0 st0 st' hrun'
  have hlen : 0 + (ixs.take j).length = j := by simp [List.length_take]; omega
  rw [hlen] at h2
  unfold runAux at h2
  cases he : exec ixs orc j x s1 with
  | error e => rw [he] at h2; cases h2
  | ok s2 =>
    have he' := he
    unfold exec at he
    simp only [xp, ne_eq, not_true_eq_false, ↓reduceIte, xd, xa] at he
    have hbr : isBracketDisc D_END_FLASH = true := by decide
    simp only [hbr, ↓reduceIte] at he
    unfold execBracket at he
    dsimp only at he
    have n1 : ¬ (D_END_FLASH = D_START_LIQ ∨ D_END_FLASH = D_START_DELEV) := by decide
    have n2 : ¬ (D_END_FLASH = D_END_LIQ ∨ D_END_FLASH = D_END_DELEV) := by decide
    have n3 : ¬ (D_END_FLASH = D_START_FLASH) := by decide
    simp only [n1, n2, n3, ↓reduceIte] at he
    obtain ⟨_, g1, he⟩ := Res.bind_ok he
    obtain ⟨_, g2, he⟩ := Res.bind_ok he
    obtain ⟨_, g3, he⟩ := Res.bind_ok he
    obtain ⟨_, g4, he⟩ := Res.bind_ok he
    injection he with he
    refine ⟨guard_ok g4, s1, s2, he', by simpa using guard_ok g1, by simpa using guard_ok g2,
      by simpa using guard_ok g3, ?_⟩
    rw [← he]
    simp [upd_apply]

/-! ### the handler side: tables regenerated from the source -/

section tables
open Mfi.Gen.Skel

/-- only start_flashloan sets ACCOUNT_IN_FLASHLOAN and only end_flashloan clears it -/
theorem flashloan_flag_writers :
    ∀ w ∈ TxL.flagWrites, w.2.2 = TxL.Flag.inFlashloan →
      (w.1 = .fn_lending_account_start_flashloan ∧ w.2.1 = true) ∨
      (w.1 = .fn_lending_account_end_flashloan ∧ w.2.1 = false) := by decide

/-- start: the can-start check precedes the flag; end: no CPI, refuses disabled / in-receivership / frozen
    accounts, clears the flag and THEN runs the initial-margin check as its last step -/
theorem handler_shape :
    start_flashloan = [.callCanStart, .setFlag .inFlashloan] ∧
    end_flashloan = [.notCpi, .acctFlag .disabled, .acctFlag .inReceivership, .acctFlag .frozen,
                     .unsetFlag .inFlashloan, .healthInit] ∧
    check_flashloan_can_start = [.notCpiSysvar, .notCpi, .acctFlag .disabled, .acctFlag .inFlashloan,
                                 .acctFlag .inReceivership, .acctFlag .frozen] := by decide

/-- both bracket instructions need the account authority's signature -/
theorem bracket_signers :
    ∀ s ∈ [Acc.S.LendingAccountStartFlashloan, .LendingAccountEndFlashloan],
      Acc.hasOneOf s .f_marginfi_account .f_authority = true ∧ Acc.isSigner s .f_authority = true := by decide

/-- liquidation (classic and receivership) and bankruptcy are impossible while the flag is set:
    the receivership start/end constraints require the flag clear, and the risk engine's liquidation
    and bankruptcy assessments refuse an account in a flash loan (Mfi.Gen.Skel: the handlers call them) -/
theorem no_liquidation_in_flashloan :
    (∀ s ∈ [Acc.S.StartLiquidation, .StartDeleverage, .EndLiquidation, .EndDeleverage],
      Acc.hasCons s .f_marginfi_account (.flagClear .f_marginfi_account .fl_ACCOUNT_IN_FLASHLOAN) = true) ∧
    liquidate.contains .healthPreLiq = true ∧ handle_bankruptcy.contains .checkBankrupt = true ∧
    re_pre_liquidation.head? = some (.acctFlag .inFlashloan) ∧
    re_post_liquidation.head? = some (.acctFlag .inFlashloan) ∧
    re_check_bankrupt.head? = some (.acctFlag .inFlashloan) := by decide

/-- the only place where the initial-margin check is skipped is `check_account_init_health` itself, and
    only on the in-flash-loan flag -/
theorem health_skipped_only_in_flashloan : re_check_init_health = [.acctFlag .inFlashloan] := by decide

end tables

/-! ### non-vacuity -/

def demoTx : List Ix :=
  [ { prog := MRGN, disc := some D_START_FLASH, acct0 := some 3, arg := 2 },
    { prog := MRGN, disc := some 15, acct0 := some 3, arg := 0 },
    { prog := MRGN, disc := some D_END_FLASH, acct0 := some 3, arg := 0 } ]

example : canStartFlashloan demoTx 0 1 2 3 ⟨false, false, false, false⟩ = .ok () := by rfl
example : (run demoTx (fun i => decide (i < 1000)) (fun _ => ⟨false, false, false, false⟩)).isOk = true := by decide

section whole_instructions
open Mfi Mfi.World Mfi.Gen Mfi.Gen.Acc

/-! ### the whole end instruction (Mfi/Model/World.lean: `World.endFlashloan`) -/

theorem clear_flag (flags : Nat) : hasFlag (flags &&& (Nat.xor ACCOUNT_IN_FLASHLOAN.toNat (2 ^ 64 - 1))) ACCOUNT_IN_FLASHLOAN = false := by
  unfold hasFlag
  have h : ACCOUNT_IN_FLASHLOAN.toNat = 2 := by decide
  rw [h]
  have : (flags &&& Nat.xor 2 (2 ^ 64 - 1)) &&& 2 = 0 := by
    apply Nat.eq_of_testBit_eq
    intro i
    simp only [Nat.testBit_and, Nat.zero_testBit]
    by_cases hi : i = 1
    · subst hi
      have h2 : Nat.testBit 18446744073709551613 1 = false := by decide
      simp [h2]
    · have : Nat.testBit 2 i = false := by
        rw [show (2 : Nat) = 2 ^ 1 by rfl, Nat.testBit_two_pow]; simp; omega
      simp [this]
  rw [this]
  decide

/-- **world_end_flashloan_enforces_health**: `lending_account_end_flashloan` goes through only when signed by the account's
    authority, at the top level of the transaction (not via CPI), on an account that is neither disabled, in receivership
    nor frozen; it leaves the in-flash-loan flag CLEARED, and the portfolio as stored — every active slot, in slot order —
    passes the full initial-margin check, which cannot be skipped because the flag is cleared before it runs. -/
theorem world_end_flashloan_enforces_health {c : Ctx} {stack f : Nat} (h : World.endFlashloan c stack = .ok f) :
    c.a.authority = c.signer ∧ stack = 1 ∧
    flag c ACCOUNT_DISABLED = false ∧ flag c ACCOUNT_IN_RECEIVERSHIP = false ∧ flag c ACCOUNT_FROZEN = false ∧
    hasFlag f ACCOUNT_IN_FLASHLOAN = false ∧
    ∃ ps, portfolio c c.a.slots c.b.books = .ok ps ∧ Risk.checkInitHealth ps = .ok () := by
  unfold World.endFlashloan at h
  obtain ⟨_, hc, h⟩ := Res.bind_ok h
  obtain ⟨_, hs, h⟩ := Res.bind_ok h
  obtain ⟨_, h1, h⟩ := Res.bind_ok h
  obtain ⟨_, h2, h⟩ := Res.bind_ok h
  obtain ⟨_, h3, h⟩ := Res.bind_ok h
  obtain ⟨ps, hps, h⟩ := Res.bind_ok h
  obtain ⟨_, hh, h⟩ := Res.bind_ok h
  injection h with h
  subst h
  have hc' := runChecks_ok hc
  simp only [checks, List.forall_mem_cons, List.not_mem_nil, false_imp_iff, implies_true, and_true] at hc'
  simp [evalChk, Ctx.env, AccV.key] at hc'
  refine ⟨hc', by simpa using Bank.chk_ok hs, by simpa using Bank.chk_ok h1, by simpa using Bank.chk_ok h2,
    by simpa using Bank.chk_ok h3, clear_flag _, ps, hps, hh⟩

/-! ### flash loans inside whole TRANSACTIONS of the world state machine (Mfi/Model/WorldTx.lean)

A transaction is any list of whole instructions (`World.WOp`: deposit, withdraw, borrow, repay, close, liquidate, bankruptcy,
transfer, the cranks) and of the two flash-loan instructions, by any signers on any accounts and banks with any arguments,
executed in order; one refused instruction rolls the whole transaction back. The health checks inside are the risk-engine
model's own (not an oracle). -/

/-- **world_start_flashloan_spec**: `lending_account_start_flashloan` goes through only when signed by the account's authority,
    from a position BEFORE `end_index`, with a top-level marginfi `lending_account_end_flashloan` for THIS account at
    `end_index`, on an account that is neither disabled, already in a flash loan, in receivership nor frozen; all it does is
    set the in-flash-loan flag. -/
theorem world_start_flashloan_spec {c : Ctx} {cur endIdx : Nat} {endIx : Option Bool} {f : Nat}
    (h : startFlashloan c cur endIdx endIx = .ok f) :
    c.a.authority = c.signer ∧ cur < endIdx ∧ endIx = some true ∧
    flag c ACCOUNT_DISABLED = false ∧ flag c ACCOUNT_IN_FLASHLOAN = false ∧ flag c ACCOUNT_IN_RECEIVERSHIP = false ∧
    flag c ACCOUNT_FROZEN = false ∧ f = c.a.flags ||| ACCOUNT_IN_FLASHLOAN.toNat :=
  startFlashloan_ok h

/-- no whole instruction other than the start raises an in-flash-loan flag: every account flagged after it was flagged before -/
theorem world_instruction_raises_no_flash_flag (w : WState) (op : WOp) : NoNewFlash w (w.step op) := step_noNew w op

/-- **world_tx_no_flash_survives**: a COMMITTED transaction of the world state machine, whatever it contains, leaves no account
    flagged in-flash-loan (when none was before it): every start named an end for the same account further down, every other
    instruction leaves the flags of the accounts it does not end as they are, and a committed transaction ran that end. -/
theorem world_tx_no_flash_survives {w w' : WState} {tx : List TOp} (h : w.runTx tx = some w')
    (h0 : ∀ (k : Nat) (a : AcctV), w.accts[k]? = some a → inFlash a = false) :
    ∀ (k : Nat) (a : AcctV), w'.accts[k]? = some a → inFlash a = false :=
  runTx_noFlash h h0

/-- … and so over every sequence of transactions, committed or rolled back: between transactions nobody is in a flash loan -/
theorem world_txs_no_flash_survives (txs : List (List TOp)) (w : WState)
    (h0 : ∀ (k : Nat) (a : AcctV), w.accts[k]? = some a → inFlash a = false) :
    ∀ (k : Nat) (a : AcctV), (w.runTxs txs).accts[k]? = some a → inFlash a = false :=
  runTxs_noFlash txs w h0

/-- **world_tx_every_end_enforces_health**: in a committed transaction every `lending_account_end_flashloan` ran, and the state
    it ran on — everything the instructions inside the bracket did to the account included — passed the FULL initial-margin
    check on the account's whole portfolio with the flag already cleared, signed by the account's authority. -/
theorem world_tx_every_end_enforces_health {w w' : WState} {tx : List TOp} (h : w.runTx tx = some w')
    {j k s : Nat} (hj : tx[j]? = some (.endFlash k s)) :
    ∃ (wj : WState) (a : AcctV), w.before tx j = some wj ∧ wj.accts[k]? = some a ∧ a.authority = s ∧
      ∃ ps, portfolio (wj.actx a s) a.slots noBank.books = .ok ps ∧ Risk.checkInitHealth ps = .ok () := by
  obtain ⟨wj, a, f, hbj, ha, hf⟩ := tx_endflash_ran h hj
  obtain ⟨h1, _, _, _, _, _, ps, hps, hh⟩ := world_end_flashloan_enforces_health hf
  exact ⟨wj, a, hbj, ha, h1, ps, hps, hh⟩

theorem initHealth_unflagged {c : Ctx} {slots : List Account.Slot} {books : Bank.Bank} (hf : flag c ACCOUNT_IN_FLASHLOAN = false)
    (h : initHealth c slots books = .ok ()) : ∃ ps, portfolio c slots books = .ok ps ∧ Risk.checkInitHealth ps = .ok () := by
  unfold initHealth at h
  rw [hf] at h
  simp only [Bool.false_eq_true, if_false] at h
  obtain ⟨ps, hps, h⟩ := Res.bind_ok h
  exact ⟨ps, hps, h⟩

/-- **world_tx_borrow_is_backed**: every borrow of a committed transaction (started with nobody in a flash loan) is backed by a
    passed initial-margin check of the risk engine on the borrower's whole portfolio — the borrow's own, on the state the borrow
    left, when the account was not in a flash loan; otherwise the one of the account's `end_flashloan` FURTHER DOWN THE SAME
    TRANSACTION, on the state the whole bracket left. There is no third case: health is enforced before the transaction ends. -/
theorem world_tx_borrow_is_backed {w w' : WState} {tx : List TOp} (h : w.runTx tx = some w')
    (h0 : ∀ (k : Nat) (a : AcctV), w.accts[k]? = some a → inFlash a = false)
    {i ai bi signer : Nat} {amount : Int} (hi : tx[i]? = some (.ix (.borrow ai bi signer amount))) :
    (∃ (wi : WState) (a : AcctV) (b : WBank) (o : Out) (ps : List Risk.Pos), w.before tx i = some wi ∧ wi.accts[ai]? = some a ∧ wi.banks[bi]? = some b ∧
        borrow (wi.ctx a b signer b.v.liquidityVault 0) amount = .ok o ∧
        portfolio (wi.ctx a b signer b.v.liquidityVault 0) o.slots o.books = .ok ps ∧ Risk.checkInitHealth ps = .ok ()) ∨
    (∃ (j s : Nat) (wj : WState) (a : AcctV) (ps : List Risk.Pos), i < j ∧ tx[j]? = some (.endFlash ai s) ∧ w.before tx j = some wj ∧ wj.accts[ai]? = some a ∧
        portfolio (wj.actx a s) a.slots noBank.books = .ok ps ∧ Risk.checkInitHealth ps = .ok ()) := by
  rcases tx_borrow_checked h h0 hi with ⟨wi, a, b, o, hbi, ha, hb, ho, hfa, hh⟩ | ⟨j, s, wj, a, f, hij, hj, hbj, ha, hf⟩
  · left
    obtain ⟨ps, hps, hc⟩ := initHealth_unflagged (c := wi.ctx a b signer b.v.liquidityVault 0) hfa hh
    exact ⟨wi, a, b, o, ps, hbi, ha, hb, ho, hps, hc⟩
  · right
    obtain ⟨_, _, _, _, _, _, ps, hps, hc⟩ := world_end_flashloan_enforces_health hf
    exact ⟨j, s, wj, a, ps, hij, hj, hbj, ha, hps, hc⟩

/-- **world_tx_liquidator_is_backed**: every classic liquidation of a committed transaction (started with nobody in a flash loan)
    leaves the LIQUIDATOR backed by a passed initial-margin check: its own, on the liquidator's portfolio as the liquidation left
    it, when the liquidator was not in a flash loan; otherwise the one of the liquidator's `end_flashloan` further down the same
    transaction. The liquidatee is never inside a flash loan (`C05.world_liquidate_spec`: liquidation is impossible while the
    flag is set). -/
theorem world_tx_liquidator_is_backed {w w' : WState} {tx : List TOp} (h : w.runTx tx = some w')
    (h0 : ∀ (k : Nat) (a : AcctV), w.accts[k]? = some a → inFlash a = false)
    {i qi ei abi lbi signer : Nat} {amount : Int} (hi : tx[i]? = some (.ix (.liquidate qi ei abi lbi signer amount))) :
    ∃ (wi : WState) (lq le : AcctV) (ab lb : WBank) (o : LiqOutW), w.before tx i = some wi ∧ wi.accts[qi]? = some lq ∧ wi.accts[ei]? = some le ∧
      wi.banks[abi]? = some ab ∧ wi.banks[lbi]? = some lb ∧ liquidate (wi.liqCtx lq le ab lb signer) amount = .ok o ∧
      hasFlag le.flags ACCOUNT_IN_FLASHLOAN = false ∧
      ((∃ qs, portfolio2 (wi.liqCtx lq le ab lb signer).risk o.lqSlots ab.v.key o.assetBooks lb.v.key o.liabBooks = .ok qs ∧
          Risk.checkInitHealth qs = .ok ()) ∨
       (∃ (j s : Nat) (wj : WState) (a : AcctV) (ps : List Risk.Pos), i < j ∧ tx[j]? = some (.endFlash qi s) ∧ w.before tx j = some wj ∧ wj.accts[qi]? = some a ∧
          portfolio (wj.actx a s) a.slots noBank.books = .ok ps ∧ Risk.checkInitHealth ps = .ok ())) := by
  obtain ⟨wi, lq, le, ab, lb, o, hbi, hq, he, hab, hlb, ho, hfl⟩ := tx_liquidate_at h h0 hi
  have hspec := Mfi.Props.C05.world_liquidate_spec ho
  obtain ⟨_, _, _, _, _, hle, a, l, ps, pre, ap, lp, ps', lp', post, _, _, _, _, _, _, _, _, _, _, _, _, _, hq'⟩ := hspec
  refine ⟨wi, lq, le, ab, lb, o, hbi, hq, he, hab, hlb, ho, hle, ?_⟩
  rcases hq' with hflash | ⟨qs, hqs, hc⟩
  · right
    obtain ⟨j, s, wj, a', f, hij, hj, hbj, ha', hf⟩ := hfl hflash
    obtain ⟨_, _, _, _, _, _, ps2, hps2, hc2⟩ := world_end_flashloan_enforces_health hf
    exact ⟨j, s, wj, a', ps2, hij, hj, hbj, ha', hps2, hc2⟩
  · left
    exact ⟨qs, hqs, hc⟩

/-- **world_no_liquidation_or_bankruptcy_inside_a_flash_loan**: as whole instructions — a classic liquidation whose LIQUIDATEE
    carries the in-flash-loan flag is refused, and so is a bankruptcy settlement of such an account, whoever signs and whatever
    the portfolio looks like (inside the bracket its health is unenforced, so neither verdict may be taken on it) -/
theorem world_no_liquidation_or_bankruptcy_inside_a_flash_loan :
    (∀ (c : LiqCtx) (amount : Int), hasFlag c.le.flags ACCOUNT_IN_FLASHLOAN = true → (World.liquidate c amount).isOk = false) ∧
    (∀ (c : Ctx) (available : Int), hasFlag c.a.flags ACCOUNT_IN_FLASHLOAN = true → (World.bankruptcy c available).isOk = false) := by
  constructor
  · intro c amount hf
    cases hr : World.liquidate c amount with
    | error e => rfl
    | ok o =>
      have := (Mfi.Props.C05.world_liquidate_spec hr).2.2.2.2.2.1
      rw [hf] at this; cases this
  · intro c available hf
    cases hr : World.bankruptcy c available with
    | error e => rfl
    | ok o =>
      have := (Mfi.Props.C07.world_bankruptcy_spec hr).2.2.2.2.2.1
      rw [hf] at this; cases this

/-- **world_tx_withdraw_is_backed**: the same for every withdrawal of a committed transaction made outside receivership (inside
    receivership the bracket's own end enforces health: C10) -/
theorem world_tx_withdraw_is_backed {w w' : WState} {tx : List TOp} (h : w.runTx tx = some w')
    (h0 : ∀ (k : Nat) (a : AcctV), w.accts[k]? = some a → inFlash a = false)
    {i ai bi signer : Nat} {amount vault : Int} {all : Bool} (hi : tx[i]? = some (.ix (.withdraw ai bi signer amount all vault))) :
    (∃ (wi : WState) (a : AcctV) (b : WBank) (o : Out), w.before tx i = some wi ∧ wi.accts[ai]? = some a ∧ wi.banks[bi]? = some b ∧
        withdraw (wi.ctx a b signer b.v.liquidityVault vault) amount all = .ok o ∧
        (hasFlag a.flags ACCOUNT_IN_RECEIVERSHIP = true ∨
          ∃ ps, portfolio (wi.ctx a b signer b.v.liquidityVault vault) o.slots o.books = .ok ps ∧ Risk.checkInitHealth ps = .ok ())) ∨
    (∃ (j s : Nat) (wj : WState) (a : AcctV) (ps : List Risk.Pos), i < j ∧ tx[j]? = some (.endFlash ai s) ∧ w.before tx j = some wj ∧ wj.accts[ai]? = some a ∧
        portfolio (wj.actx a s) a.slots noBank.books = .ok ps ∧ Risk.checkInitHealth ps = .ok ()) := by
  rcases tx_withdraw_checked h h0 hi with ⟨wi, a, b, o, hbi, ha, hb, ho, hfa, hh⟩ | ⟨j, s, wj, a, f, hij, hj, hbj, ha, hf⟩
  · left
    refine ⟨wi, a, b, o, hbi, ha, hb, ho, ?_⟩
    unfold withdrawHealth at hh
    cases hr : flag (wi.ctx a b signer b.v.liquidityVault vault) ACCOUNT_IN_RECEIVERSHIP with
    | true => left; exact hr
    | false =>
      right
      rw [hr] at hh
      simp only [Bool.false_eq_true, if_false] at hh
      exact initHealth_unflagged (c := wi.ctx a b signer b.v.liquidityVault vault) hfa hh
  · right
    obtain ⟨_, _, _, _, _, _, ps, hps, hc⟩ := world_end_flashloan_enforces_health hf
    exact ⟨j, s, wj, a, ps, hij, hj, hbj, ha, hps, hc⟩

/-- a small world: one account without positions, no banks -/
def demoWorld : WState :=
  { now := 100,
    g := { key := 1, admin := 2, riskAdmin := 3, paused := false, progFeeRate := 0, window := { dailyLimit := 0, withdrawnToday := 0, lastReset := 0 } },
    accts := [{ key := 5, group := 1, authority := 7, flags := 0, slots := List.replicate 16 Account.emptySlot }],
    banks := [], dustA := fun _ => 0, dustL := fun _ => 0 }

/-- a bracket commits; a start without its end, an end before its start, a start by someone else do not (the hypotheses of the
    transaction theorems are satisfiable, and the refusals are real) -/
example : (demoWorld.runTx [.startFlash 0 7 1, .endFlash 0 7]).isSome = true := by decide
example : (demoWorld.runTx [.startFlash 0 7 1]).isSome = false := by decide
example : (demoWorld.runTx [.endFlash 0 7, .startFlash 0 7 0]).isSome = false := by decide
example : (demoWorld.runTx [.startFlash 0 8 1, .endFlash 0 7]).isSome = false := by decide
example : (demoWorld.runTx [.startFlash 0 7 2, .ix (.tick 0), .endFlash 0 7]).isSome = true := by decide

/-- `WState.before` names real states: the end of that bracket finds the account flagged in-flash-loan, the start does not -/
example : ((demoWorld.before [.startFlash 0 7 1, .endFlash 0 7] 1).bind (fun w => w.accts[0]?.map inFlash)) = some true := by decide
example : ((demoWorld.before [.startFlash 0 7 1, .endFlash 0 7] 0).bind (fun w => w.accts[0]?.map inFlash)) = some false := by decide

end whole_instructions

end Mfi.Props.C11
