#!/bin/sh
# MANIFEST.setup_cmd: build the framework offline from files on disk only.
set -e
cd "$(dirname "$0")"
export CARGO_NET_OFFLINE=true
mkdir -p .work evidence replays
cp /repo/Cargo.lock harness/Cargo.lock
(cd harness && cargo build --offline)
for t in translator/consts.py translator/accounts.py translator/skeleton.py translator/txlists.py translator/oracles.py; do
  [ -f "$t" ] && python3 "$t"
done
(cd lean && lake build Mfi driver)
echo "setup ok"
