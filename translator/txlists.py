#!/usr/bin/env python3
"""Translator part 4: the instruction-introspection lists of the receivership bracket.

Extracts from `validate_instructions` (instructions/marginfi_account/liquidate_start.rs) the allowed
program ids, the whitelist of instructions that may precede the start, and the list of this program's
instructions allowed inside the bracket; from type-crate constants the discriminator table; and, from
every function under instructions/, which account flags it sets / clears. Writes Mfi/Gen/TxLists.lean.
Names are mapped to small naturals by the fixed tables below (the harness uses the same tables and the
REAL keys / discriminator bytes); a name this script does not know gets a fresh code >= 100, so a list
that grows by an unknown entry still yields a well-formed table over which the theorems are re-decided."""
import re, os, sys

REPO = os.environ.get("VERIF_REPO", "/repo")
VERIF = os.path.dirname(os.path.dirname(os.path.abspath(__file__)))
GEN = os.path.join(VERIF, "lean", "Mfi", "Gen")
SRC = os.path.join(REPO, "programs/marginfi/src")

PROGS = {"COMPUTE_PROGRAM_KEY": 0, "id_crate::ID": 1, "kamino_mocks::kamino_lending::ID": 2, "DRIFT_PROGRAM_ID": 3,
         "JUP_KEY": 4, "TITAN_KEY": 5, "ASSOCIATED_TOKEN_KEY": 6}
DISCS = {"START_LIQUIDATION": 0, "END_LIQUIDATION": 1, "START_DELEVERAGE": 2, "END_DELEVERAGE": 3,
         "INIT_LIQUIDATION_RECORD": 4, "LENDING_ACCOUNT_WITHDRAW": 5, "LENDING_ACCOUNT_REPAY": 6, "KAMINO_WITHDRAW": 7,
         "DRIFT_WITHDRAW": 8, "START_FLASHLOAN": 9, "END_FLASHLOAN": 10,
         "kamino::RefreshReserve::DISCRIMINATOR": 11, "kamino::RefreshObligation::DISCRIMINATOR": 12,
         "drift::UpdateSpotMarketCumulativeInterest::DISCRIMINATOR": 13,
         "LENDING_SETTLE_EMISSIONS": 16, "LENDING_WITHDRAW_EMISSIONS": 17}
fresh = [100]


def code(table, name):
    name = re.sub(r"\s+", "", name).lstrip("&")
    name = name.replace("ix_discriminators::", "")
    if name not in table:
        table[name] = fresh[0]
        fresh[0] += 1
    return table[name]


def strip_comments(src):
    src = re.sub(r"/\*.*?\*/", " ", src, flags=re.S)
    return re.sub(r"//[^\n]*", "", src)


def balanced(src, i, open_ch, close_ch):
    depth, j = 0, i
    while j < len(src):
        if src[j] == open_ch:
            depth += 1
        elif src[j] == close_ch:
            depth -= 1
            if depth == 0:
                return src[i + 1 : j]
        j += 1
    raise SystemExit("unbalanced")


def split_top(s):
    out, depth, cur = [], 0, ""
    for ch in s:
        if ch in "([{":
            depth += 1
        if ch in ")]}":
            depth -= 1
        if ch == "," and depth == 0:
            out.append(cur)
            cur = ""
        else:
            cur += ch
    if cur.strip():
        out.append(cur)
    return [x.strip() for x in out if x.strip()]


def main():
    src = strip_comments(open(os.path.join(SRC, "instructions/marginfi_account/liquidate_start.rs")).read())
    m = re.search(r"pub\s+fn\s+validate_instructions\b", src)
    body = balanced(src, src.index("{", m.end()), "{", "}")
    # allowed programs
    m = re.search(r"allowed_program_ids\s*=\s*&\[", body)
    progs = [code(PROGS, x) for x in split_top(balanced(body, m.end() - 1, "[", "]"))]
    # validate_ix_first(..., &[ (prog, disc), ... ])
    m = re.search(r"validate_ix_first\s*\(", body)
    args = split_top(balanced(body, m.end() - 1, "(", ")"))
    wl_src = args[3].lstrip("&").strip()
    wl = []
    for t in split_top(balanced(wl_src, 0, "[", "]")):
        p, d = split_top(balanced(t, 0, "(", ")"))
        wl.append((code(PROGS, p), code(DISCS, d)))
    first_prog, first_disc = args[1].strip(), args[2].strip()
    # validate_ix_last
    m = re.search(r"validate_ix_last\s*\(", body)
    largs = split_top(balanced(body, m.end() - 1, "(", ")"))
    # validate_ixes_exclusive
    m = re.search(r"validate_ixes_exclusive\s*\(", body)
    eargs = split_top(balanced(body, m.end() - 1, "(", ")"))
    ex_items = split_top(balanced(eargs[2].lstrip("&").strip(), 0, "[", "]"))
    uses_start = "start_ix" in ex_items
    uses_end = "end_ix" in ex_items
    extra = [code(DISCS, x) for x in ex_items if x not in ("start_ix", "end_ix")]
    # order of the checks inside validate_instructions
    order = []
    for name in ["load_and_validate_instructions", "validate_ix_first", "validate_ix_last", "validate_ixes_exclusive",
                 "validate_not_cpi_by_stack_height", "validate_not_cpi_with_sysvar"]:
        mm = re.search(name + r"\s*\(", body)
        order.append((mm.start() if mm else -1, name))
    present = [n for p, n in sorted(order) if p >= 0]
    # which (start,end) pairs the two start handlers pass
    pairs = []
    for fn in ["start_liquidation", "start_deleverage"]:
        mm = re.search(r"pub\s+fn\s+" + fn + r"\b", src)
        fb = balanced(src, src.index("{", mm.end()), "{", "}")
        c = re.search(r"validate_instructions\s*\(", fb)
        a = split_top(balanced(fb, c.end() - 1, "(", ")"))
        pairs.append((fn, code(DISCS, a[2]), code(DISCS, a[3])))
    # flag writers: every fn under instructions/ and state/
    from skeleton import all_fns, strip_comments as sc
    writes = []
    for base in ["instructions", "state"]:
        for root, _, files in sorted(os.walk(os.path.join(SRC, base))):
            for f in sorted(files):
                if not f.endswith(".rs"):
                    continue
                s2 = sc(open(os.path.join(root, f)).read())
                for name, fb in all_fns(s2):
                    if name in ("set_flag", "unset_flag"):
                        continue
                    for mm in re.finditer(r"\.\s*(set_flag|unset_flag)\s*\(\s*(ACCOUNT_\w+)", fb):
                        writes.append((name, mm.group(1) == "set_flag", mm.group(2)))
                    for mm in re.finditer(r"\.account_flags\s*(\|=|&=|=)[^=]", fb):
                        writes.append((name, True, "RAW"))
    writes = sorted(set(writes))
    # whole-field writes of the migration link and of the position array (C16: a transfer happens once)
    mig, arr = [], []
    for base in ["instructions", "state"]:
        for root, _, files in sorted(os.walk(os.path.join(SRC, base))):
            for f in sorted(files):
                if not f.endswith(".rs"):
                    continue
                s2 = sc(open(os.path.join(root, f)).read())
                for name, fb in all_fns(s2):
                    for mm in re.finditer(r"\.migrated_to\s*=(?!=)\s*([^;]*);", fb):
                        mig.append((name, "default" not in mm.group(1)))
                    for mm in re.finditer(r"\.lending_account\s*=(?!=)\s*([^;]*);", fb):
                        arr.append((name, "zeroed" in mm.group(1)))
    mig = sorted(set(mig))
    arr = sorted(set(arr))
    mfns = sorted({w[0] for w in mig} | {w[0] for w in arr})
    FL = {"ACCOUNT_DISABLED": "disabled", "ACCOUNT_IN_FLASHLOAN": "inFlashloan", "ACCOUNT_IN_RECEIVERSHIP": "inReceivership",
          "ACCOUNT_IN_DELEVERAGE": "inDeleverage", "ACCOUNT_FROZEN": "frozen", "RAW": "rawCopy"}
    fns = sorted({w[0] for w in writes})
    L = ["-- GENERATED by translator/txlists.py from instructions/marginfi_account/liquidate_start.rs (validate_instructions),",
         "-- and a scan of every function under instructions/ and state/ for account-flag writes. Do not edit.",
         "namespace Mfi.Gen.TxL", "",
         "/-- program ids allowed anywhere in a receivership transaction (codes: 0 compute budget, 1 this program, 2 kamino, 3 drift, 4 jupiter, 5 titan, 6 associated token) -/",
         "def allowedPrograms : List Nat := [%s]" % ", ".join(map(str, progs)),
         "/-- (program, discriminator) pairs that may precede the start instruction -/",
         "def firstWhitelist : List (Nat × Nat) := [%s]" % ", ".join("(%d, %d)" % x for x in wl),
         "/-- this program's instructions allowed in the transaction besides the start and the end -/",
         "def exclusiveExtra : List Nat := [%s]" % ", ".join(map(str, extra)),
         "def exclusiveHasStart : Bool := %s" % ("true" if uses_start else "false"),
         "def exclusiveHasEnd : Bool := %s" % ("true" if uses_end else "false"),
         "def firstUsesStartArg : Bool := %s" % ("true" if first_disc == "start_ix" and first_prog == "program_id" else "false"),
         "def lastUsesEndArg : Bool := %s" % ("true" if largs[2].strip() == "end_ix" and largs[1].strip() == "program_id" else "false"),
         "/-- the checks of validate_instructions in source order -/",
         "inductive Chk | load | first | last | exclusive | stackHeight | sysvarCpi deriving DecidableEq, Repr",
         "def checks : List Chk := [%s]" % ", ".join("." + {"load_and_validate_instructions": "load", "validate_ix_first": "first", "validate_ix_last": "last",
                                                       "validate_ixes_exclusive": "exclusive", "validate_not_cpi_by_stack_height": "stackHeight",
                                                       "validate_not_cpi_with_sysvar": "sysvarCpi"}[n] for n in present),
         "/-- (start discriminator, end discriminator) passed by start_liquidation and start_deleverage -/",
         "def liqPair : Nat × Nat := (%d, %d)" % (pairs[0][1], pairs[0][2]),
         "def delevPair : Nat × Nat := (%d, %d)" % (pairs[1][1], pairs[1][2]),
         "",
         "inductive Flag | disabled | inFlashloan | inReceivership | inDeleverage | frozen | rawCopy deriving DecidableEq, Repr",
         "inductive WFn", "  " + " ".join("| fn_%s" % n for n in fns), "  deriving DecidableEq, Repr",
         "/-- every (function, sets?, flag) account-flag write in the program -/",
         "def flagWrites : List (WFn × Bool × Flag) := [%s]" % ", ".join("(.fn_%s, %s, .%s)" % (n, "true" if s else "false", FL.get(f, "rawCopy")) for n, s, f in writes),
         "inductive MFn", "  " + " ".join("| fn_%s" % n for n in mfns), "  deriving DecidableEq, Repr",
         "/-- every assignment to `migrated_to` in the program: (function, assigns something other than the default key) -/",
         "def migratedToWrites : List (MFn × Bool) := [%s]" % ", ".join("(.fn_%s, %s)" % (n, "true" if b else "false") for n, b in mig),
         "/-- every whole-array assignment to an account's `lending_account`: (function, assigns the zeroed array) -/",
         "def lendingArrayWrites : List (MFn × Bool) := [%s]" % ", ".join("(.fn_%s, %s)" % (n, "true" if b else "false") for n, b in arr),
         "", "end Mfi.Gen.TxL", ""]
    text = "\n".join(L)
    p = os.path.join(GEN, "TxLists.lean")
    old = open(p).read() if os.path.exists(p) else None
    if old != text:
        open(p, "w").write(text)
    print("translator/txlists: TxLists.lean", "rewritten" if old != text else "unchanged")


if __name__ == "__main__":
    sys.path.insert(0, os.path.dirname(os.path.abspath(__file__)))
    main()
