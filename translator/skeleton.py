#!/usr/bin/env python3
"""Translator part 3: handler skeletons.

For every instruction handler that the properties anchor, extracts from the Rust source text the
ORDERED list of the calls that matter (accrue_interest, validate_bank_state kind, capacity query,
wrapper operation, token transfers, health checks, sort, vault-authority signers, flag tests) and
writes Mfi/Gen/Skeletons.lean. Ordering theorems (C06 accrue-first, C17 capacity-after-accrual,
C04 health-after-change, C14 bank-state kind, C19 vault signers) are `decide`d over this table on
every run, so a reordered / removed call breaks a proof obligation."""
import re, os, sys

REPO = os.environ.get("VERIF_REPO", "/repo")
VERIF = os.path.dirname(os.path.dirname(os.path.abspath(__file__)))
GEN = os.path.join(VERIF, "lean", "Mfi", "Gen")
IX = os.path.join(REPO, "programs/marginfi/src/instructions")

HANDLERS = [
    ("deposit", "marginfi_account/deposit.rs", "lending_account_deposit"),
    ("withdraw", "marginfi_account/withdraw.rs", "lending_account_withdraw"),
    ("borrow", "marginfi_account/borrow.rs", "lending_account_borrow"),
    ("repay", "marginfi_account/repay.rs", "lending_account_repay"),
    ("liquidate", "marginfi_account/liquidate.rs", "lending_account_liquidate"),
    ("close_balance", "marginfi_account/close_balance.rs", "lending_account_close_balance"),
    ("handle_bankruptcy", "marginfi_group/handle_bankruptcy.rs", "lending_pool_handle_bankruptcy"),
    ("collect_bank_fees", "marginfi_group/collect_bank_fees.rs", "lending_pool_collect_bank_fees"),
    ("withdraw_fees", "marginfi_group/collect_bank_fees.rs", "lending_pool_withdraw_fees"),
    ("withdraw_insurance", "marginfi_group/collect_bank_fees.rs", "lending_pool_withdraw_insurance"),
    ("withdraw_fees_permissionless", "marginfi_group/collect_bank_fees.rs", "lending_pool_withdraw_fees_permissionless"),
    ("accrue_bank_interest", "marginfi_group/accrue_bank_interest.rs", "lending_pool_accrue_bank_interest"),
    ("end_flashloan", "marginfi_account/flashloan.rs", "lending_account_end_flashloan"),
    ("start_flashloan", "marginfi_account/flashloan.rs", "lending_account_start_flashloan"),
    ("purge_delev_balance", "marginfi_account/purge_delev_balance.rs", "lending_account_purge_delev_balance"),
    ("kamino_deposit", "kamino/deposit.rs", "kamino_deposit"),
    ("kamino_withdraw", "kamino/withdraw.rs", "kamino_withdraw"),
    ("drift_deposit", "drift/deposit.rs", "drift_deposit"),
    ("drift_withdraw", "drift/withdraw.rs", "drift_withdraw"),
    ("solend_deposit", "solend/deposit.rs", "solend_deposit"),
    ("solend_withdraw", "solend/withdraw.rs", "solend_withdraw"),
    ("withdraw_emissions", "marginfi_account/emissions.rs", "lending_account_withdraw_emissions"),
    ("withdraw_emissions_permissionless", "marginfi_account/emissions.rs", "lending_account_withdraw_emissions_permissionless"),
    ("settle_emissions", "marginfi_account/emissions.rs", "lending_account_settle_emissions"),
    ("start_liquidation", "marginfi_account/liquidate_start.rs", "start_liquidation"),
    ("start_deleverage", "marginfi_account/liquidate_start.rs", "start_deleverage"),
    ("start_receivership", "marginfi_account/liquidate_start.rs", "start_receivership"),
    ("end_liquidation", "marginfi_account/liquidate_end.rs", "end_liquidation"),
    ("end_deleverage", "marginfi_account/liquidate_end.rs", "end_deleverage"),
    ("end_receivership", "marginfi_account/liquidate_end.rs", "end_receivership"),
    ("transfer_to_new_account", "marginfi_account/transfer_account.rs", "transfer_to_new_account"),
    ("transfer_to_new_account_pda", "marginfi_account/transfer_account.rs", "transfer_to_new_account_pda"),
    ("check_flashloan_can_start", "marginfi_account/flashloan.rs", "check_flashloan_can_start"),
    ("close_account", "marginfi_account/close.rs", "close_account"),
    ("re_pre_liquidation", "../state/marginfi_account.rs", "check_pre_liquidation_condition_and_get_account_health"),
    ("re_post_liquidation", "../state/marginfi_account.rs", "check_post_liquidation_condition_and_get_account_health"),
    ("re_check_bankrupt", "../state/marginfi_account.rs", "check_account_bankrupt"),
    ("re_check_init_health", "../state/marginfi_account.rs", "check_account_init_health"),
]

PATTERNS = [
    (r"((?:\w+\s*\.\s*)*\w+)(?:\s*\.\s*load_mut\(\)\?)?\s*\.\s*accrue_interest\s*\(",
     lambda m: "accrue:" + re.sub(r"_loader$", "", re.split(r"\s*\.\s*", m.group(1))[-1])),
    (r"validate_bank_state\s*\(\s*&?\*?(\w+)\s*,\s*InstructionKind::(\w+)", lambda m: f"bankstate:{m.group(1)}:{m.group(2)}"),
    (r"validate_asset_tags\s*\(", lambda m: "asset_tags"),
    (r"get_remaining_deposit_capacity\s*\(", lambda m: "capacity"),
    (r"BankAccountWrapper::find_or_create\s*\(", lambda m: "find_or_create"),
    (r"BankAccountWrapper::find\s*\(", lambda m: "find"),
    (r"\.\s*(deposit_ignore_deposit_cap|withdraw_ignore_borrow_cap|deposit_no_repay|withdraw_all|repay_all|close_balance|deposit|withdraw|borrow|repay)\s*\(", lambda m: "op:" + m.group(1)),
    (r"\.\s*(deposit_spl_transfer|withdraw_spl_transfer)\s*\(", lambda m: "transfer:" + m.group(1)),
    (r"check_account_init_health\s*\(", lambda m: "health_init"),
    (r"check_pre_liquidation_condition_and_get_account_health\s*\(", lambda m: "health_pre_liq"),
    (r"check_post_liquidation_condition_and_get_account_health\s*\(", lambda m: "health_post_liq"),
    (r"check_account_bankrupt\s*\(", lambda m: "check_bankrupt"),
    (r"\.\s*sort_balances\s*\(", lambda m: "sort"),
    (r"\.\s*socialize_loss\s*\(", lambda m: "socialize_loss"),
    (r"\.\s*update_bank_cache\s*\(", lambda m: "update_bank_cache"),
    (r"bank_signer!\s*\(\s*BankVaultType::(\w+)", lambda m: "signer:" + m.group(1)),
    (r"get_flag\s*\(\s*(ACCOUNT_\w+)\s*\)", lambda m: "acctflag:" + m.group(1)),
    (r"update_withdrawn_equity\s*\(", lambda m: "update_withdrawn_equity"),
    (r"\.\s*claim_emissions\s*\(", lambda m: "claim_emissions"),
    (r"settle_emissions_and_get_transfer_amount\s*\(", lambda m: "settle_emissions"),
    (r"check_utilization_ratio\s*\(", lambda m: "check_utilization"),
    (r"MarginfiError::InvalidFeeAta\b", lambda m: "fee_ata_check"),
    (r"MarginfiError::InvalidEmissionsDestinationAccount\b", lambda m: "emis_dest_check"),
    (r"\btransfer_checked\s*\(", lambda m: "transfer_checked"),
    (r"\.\s*set_flag\s*\(\s*(ACCOUNT_\w+)", lambda m: "setflag:" + m.group(1)),
    (r"\.\s*unset_flag\s*\(\s*(ACCOUNT_\w+)", lambda m: "unsetflag:" + m.group(1)),
    (r"\breturn\s+Ok\s*\(", lambda m: "return_ok"),
    (r"\bvalidate_instructions\s*\(", lambda m: "validate_ixs"),
    (r"\bvalidate_not_cpi_by_stack_height\s*\(", lambda m: "not_cpi"),
    (r"\bvalidate_not_cpi_with_sysvar\s*\(", lambda m: "not_cpi_sysvar"),
    (r"\.account_flags\s*=[^=]", lambda m: "copy_flags"),
    (r"check_eq!\s*\(\s*\w+\s*\.\s*migrated_to\s*,\s*Pubkey::default\s*\(\)", lambda m: "migrated_check"),
    (r"\.migrated_to\s*=[^=]", lambda m: "set_migrated_to"),
    (r"\.lending_account\s*=\s*LendingAccount::zeroed", lambda m: "zero_array"),
    (r"\.lending_account\s*=\s*(?!LendingAccount::zeroed)[^=\s]", lambda m: "move_array"),
    (r"liquidation_receiver\s*=\s*Pubkey::default\s*\(\)", lambda m: "clear_receiver"),
    (r"MarginfiError::WorseHealthPostLiquidation\b", lambda m: "worse_health_check"),
    (r"MarginfiError::LiquidationPremiumTooHigh\b", lambda m: "premium_check"),
    (r"MarginfiError::OverliquidationAttempt\b", lambda m: "over_liq_check"),
    (r"MarginfiError::ZeroAssetPrice\b", lambda m: "zero_asset_price_check"),
    (r"MarginfiError::ZeroLiabilityPrice\b", lambda m: "zero_liab_price_check"),
    (r"\bstart_receivership\s*\(", lambda m: "call_start_receivership"),
    (r"\bend_receivership\s*\(", lambda m: "call_end_receivership"),
    (r"\bcheck_flashloan_can_start\s*\(", lambda m: "call_can_start"),
    (r"\.\s*can_be_closed\s*\(", lambda m: "can_be_closed"),
]


def strip_comments(src):
    src = re.sub(r"/\*.*?\*/", lambda m: " " * len(m.group(0)), src, flags=re.S)
    return re.sub(r"//[^\n]*", lambda m: " " * len(m.group(0)), src)


def fn_body(src, name):
    m = re.search(r"\bpub\s+fn\s+" + re.escape(name) + r"\b", src)
    if not m:
        return None
    i = src.index("{", m.end())
    # skip generic/where clauses: first '{' after the signature's closing ')' … '->' part
    depth, j = 0, i
    while j < len(src):
        if src[j] == "{":
            depth += 1
        elif src[j] == "}":
            depth -= 1
            if depth == 0:
                return src[i : j + 1]
        j += 1
    return None


def cond_depth(body, pos):
    """number of CONDITIONAL blocks (if / else / match arm / loop / closure) enclosing body[pos]; plain scoping
    blocks, struct literals and `let x = { .. }` do not count"""
    stack = []
    seg_start = 0
    for i, ch in enumerate(body[:pos]):
        if ch == "{":
            header = body[seg_start:i].strip()
            # the statement this block belongs to starts after the last ';' / '}' / '{'
            header = re.split(r"[;{}]", header)[-1].strip()
            is_cond = bool(re.match(r"(if|else|match|for|while|loop)\b", header)) or header.endswith("=>") or \
                bool(re.search(r"\|[^|]*\|\s*$", header)) or bool(re.search(r"\belse\s*$", header)) or \
                bool(re.search(r"\bif\b[^;]*$", header) and not re.search(r"=\s*$", header) and re.match(r"(let\s+\w+[^=]*=\s*)?if\b", header) is not None)
            stack.append(is_cond)
            seg_start = i + 1
        elif ch == "}":
            if stack:
                stack.pop()
            seg_start = i + 1
        elif ch == ";":
            seg_start = i + 1
    # the outermost '{' is the function body itself
    return sum(1 for c in stack[1:] if c)


COND = {}


def skeleton(path, fn):
    src = strip_comments(open(os.path.join(IX, path)).read())
    body = fn_body(src, fn)
    if body is None:
        return None
    ev = []
    for pat, f in PATTERNS:
        for m in re.finditer(pat, body):
            ev.append((m.start(), f(m)))
    ev.sort()
    # drop exact duplicates at the same offset
    out = []
    for pos, e in ev:
        if not out or out[-1] != (pos, e):
            out.append((pos, e))
    COND[(path, fn)] = [cond_depth(body, pos) for pos, _ in out]
    return [e for _, e in out]


RECV = {"bank": "bank", "asset_bank": "assetBank", "liab_bank": "liabBank"}
KINDS = {"Unrestricted": "unrestricted", "FailsInReduceState": "failsInReduceState",
         "FailsInPausedState": "failsInPausedState", "FailsIfPausedOrReduceState": "failsIfPausedOrReduceState"}
OPS = {"deposit": "deposit", "withdraw": "withdraw", "borrow": "borrow", "repay": "repay",
       "withdraw_all": "withdrawAll", "repay_all": "repayAll", "close_balance": "closeBalance",
       "deposit_ignore_deposit_cap": "depositIgnoreCap", "withdraw_ignore_borrow_cap": "withdrawIgnoreCap",
       "deposit_no_repay": "depositNoRepay"}
VAULTS = {"Liquidity": "liquidity", "Insurance": "insurance", "Fee": "fee"}
FLAGS = {"ACCOUNT_DISABLED": "disabled", "ACCOUNT_IN_FLASHLOAN": "inFlashloan", "ACCOUNT_IN_RECEIVERSHIP": "inReceivership",
         "ACCOUNT_IN_DELEVERAGE": "inDeleverage", "ACCOUNT_FROZEN": "frozen"}
SIMPLE = {"asset_tags": "assetTags", "capacity": "capacity", "find_or_create": "findOrCreate", "find": "find",
          "health_init": "healthInit", "health_pre_liq": "healthPreLiq", "health_post_liq": "healthPostLiq",
          "check_bankrupt": "checkBankrupt", "sort": "sort", "socialize_loss": "socializeLoss",
          "update_bank_cache": "updateBankCache", "update_withdrawn_equity": "updateWithdrawnEquity",
          "claim_emissions": "claimEmissions", "settle_emissions": "settleEmissions", "check_utilization": "checkUtilization",
          "transfer:deposit_spl_transfer": "transferIn", "transfer:withdraw_spl_transfer": "transferOut",
          "fee_ata_check": "feeAtaCheck", "emis_dest_check": "emisDestCheck", "transfer_checked": "transferChecked",
          "return_ok": "returnOk", "validate_ixs": "validateIxs", "not_cpi": "notCpi", "not_cpi_sysvar": "notCpiSysvar",
          "copy_flags": "copyFlags", "clear_receiver": "clearReceiver", "worse_health_check": "worseHealthCheck",
          "premium_check": "premiumCheck", "call_start_receivership": "callStartReceivership",
          "call_end_receivership": "callEndReceivership", "call_can_start": "callCanStart",
          "zero_asset_price_check": "zeroAssetPriceCheck", "zero_liab_price_check": "zeroLiabPriceCheck",
          "can_be_closed": "canBeClosed",
          "over_liq_check": "overLiqCheck", "migrated_check": "migratedCheck", "set_migrated_to": "setMigratedTo",
          "zero_array": "zeroArray", "move_array": "moveArray"}

PRELUDE = """-- GENERATED by translator/skeleton.py from programs/marginfi/src/instructions/**. Do not edit.
namespace Mfi.Gen.Skel

inductive Recv | bank | assetBank | liabBank | other deriving DecidableEq, Repr
inductive Kind | unrestricted | failsInReduceState | failsInPausedState | failsIfPausedOrReduceState | unknown
  deriving DecidableEq, Repr
inductive WOp | deposit | withdraw | borrow | repay | withdrawAll | repayAll | closeBalance | depositIgnoreCap
  | withdrawIgnoreCap | depositNoRepay deriving DecidableEq, Repr
inductive Vault | liquidity | insurance | fee | unknown deriving DecidableEq, Repr
inductive AFlag | disabled | inFlashloan | inReceivership | inDeleverage | frozen | unknown deriving DecidableEq, Repr

/-- one call that matters inside an instruction handler, in source order -/
inductive Ev
  | accrue (r : Recv) | bankState (r : Recv) (k : Kind) | assetTags | capacity | findOrCreate | find
  | op (o : WOp) | transferIn | transferOut | healthInit | healthPreLiq | healthPostLiq | checkBankrupt
  | sort | socializeLoss | updateBankCache | signer (v : Vault) | acctFlag (f : AFlag)
  | updateWithdrawnEquity | claimEmissions | settleEmissions | checkUtilization | notFound
  | feeAtaCheck | emisDestCheck | transferChecked
  | setFlag (f : AFlag) | unsetFlag (f : AFlag) | returnOk | validateIxs | notCpi | notCpiSysvar | copyFlags
  | clearReceiver | worseHealthCheck | premiumCheck | callStartReceivership | callEndReceivership | callCanStart
  | zeroAssetPriceCheck | zeroLiabPriceCheck | overLiqCheck
  | migratedCheck | setMigratedTo | zeroArray | moveArray | canBeClosed
  deriving DecidableEq, Repr
"""


def lean_ev(e):
    if e in SIMPLE:
        return ".%s" % SIMPLE[e]
    k, _, rest = e.partition(":")
    if k == "accrue":
        return "(.accrue .%s)" % RECV.get(rest, "other")
    if k == "bankstate":
        r, _, kind = rest.partition(":")
        return "(.bankState .%s .%s)" % (RECV.get(r, "other"), KINDS.get(kind, "unknown"))
    if k == "op":
        return "(.op .%s)" % OPS[rest]
    if k == "signer":
        return "(.signer .%s)" % VAULTS.get(rest, "unknown")
    if k == "acctflag":
        return "(.acctFlag .%s)" % FLAGS.get(rest, "unknown")
    if k == "setflag":
        return "(.setFlag .%s)" % FLAGS.get(rest, "unknown")
    if k == "unsetflag":
        return "(.unsetFlag .%s)" % FLAGS.get(rest, "unknown")
    return ".notFound"


def all_fns(src):
    """(name, body) of every fn item in a file (nested ones are part of their parent's body)."""
    out, pos = [], 0
    for m in re.finditer(r"\bfn\s+(\w+)\b", src):
        if m.start() < pos:
            continue
        try:
            i = src.index("{", m.end())
        except ValueError:
            continue
        semi = src.find(";", m.end())
        if semi != -1 and semi < i:
            continue  # trait method declaration
        depth, j = 0, i
        while j < len(src):
            if src[j] == "{":
                depth += 1
            elif src[j] == "}":
                depth -= 1
                if depth == 0:
                    break
            j += 1
        out.append((m.group(1), src[i : j + 1]))
        pos = j
    return out


def vault_uses():
    """Every function under instructions/ that mentions the insurance- or fee-vault AUTHORITY as a
    PDA signer (`bank_signer!(BankVaultType::X`, `bank_authority_seed!(BankVaultType::X` or the raw
    `*_VAULT_AUTHORITY_SEED` inside a function body; account-constraint `seeds = [..]` live outside
    function bodies and are address checks, not signatures)."""
    uses = []
    for root, _, files in sorted(os.walk(IX)):
        for f in sorted(files):
            if not f.endswith(".rs"):
                continue
            src = strip_comments(open(os.path.join(root, f)).read())
            for name, body in all_fns(src):
                for m in re.finditer(r"bank_(?:signer|authority_seed)!\s*\(\s*BankVaultType::(\w+)", body):
                    uses.append((name, VAULTS.get(m.group(1), "unknown")))
                for m in re.finditer(r"\b(INSURANCE|FEE|LIQUIDITY)_VAULT_AUTHORITY_SEED\b", body):
                    uses.append((name, {"INSURANCE": "insurance", "FEE": "fee", "LIQUIDITY": "liquidity"}[m.group(1)]))
    uses = sorted(set(uses))
    fns = sorted({n for n, _ in uses})
    lines = ["", "/-- every function under instructions/ whose body signs as (or derives the signer seeds of) a bank vault authority -/",
             "inductive Fn", "  " + " ".join("| fn_%s" % n for n in fns), "  deriving DecidableEq, Repr", "",
             "def vaultUses : List (Fn × Vault) := [" + ", ".join("(.fn_%s, .%s)" % (n, v) for n, v in uses) + "]"]
    return lines


def clock_movers():
    """Every function in programs/marginfi/src that moves a BANK's accrual clock other than by accruing: a call of
    `update_bank_cache` (which stamps `last_update` with the current time) or a direct write to a bank's `last_update`.
    For each such site: was `accrue_interest` called earlier in the same function body? (`accrue_interest` and
    `update_bank_cache` themselves, in state/bank.rs, are the two definitions and are not sites.)"""
    base = os.path.join(REPO, "programs/marginfi/src")
    sites = []
    for root, _, files in sorted(os.walk(base)):
        for f in sorted(files):
            if not f.endswith(".rs"):
                continue
            src = strip_comments(open(os.path.join(root, f)).read())
            # test modules are not part of the program
            src = re.split(r"#\[cfg\(test\)\]\s*mod\s+\w+\s*\{", src)[0]
            for name, body in all_fns(src):
                if name in ("accrue_interest", "update_bank_cache"):
                    continue
                for m in re.finditer(r"\.\s*update_bank_cache\s*\(|\b\w*bank\w*\s*\.\s*last_update\s*=[^=]", body):
                    before = re.search(r"\.\s*accrue_interest\s*\(", body[: m.start()]) is not None
                    sites.append((name, before))
    lines = ["", "/-- every site outside `accrue_interest` that stamps a bank's accrual clock (`update_bank_cache(..)` or a direct write to",
             "a bank's `last_update`), with whether `accrue_interest` was called earlier in the same function -/",
             "def clockMovers : List (String × Bool) := [" + ", ".join('("%s", %s)' % (n, "true" if b else "false") for n, b in sites) + "]"]
    return lines


def main():
    os.makedirs(GEN, exist_ok=True)
    lines = [PRELUDE]
    names = []
    for name, path, fn in HANDLERS:
        sk = skeleton(path, fn)
        if sk is None:
            items = ".notFound"
        else:
            items = ", ".join(lean_ev(e) for e in sk)
        lines.append(f"def {name} : List Ev := [{items}]")
        conds = COND.get((path, fn), [])
        lines.append(f"/-- how many conditional blocks (if / else / match arm / loop / closure) enclose each of the calls above -/")
        lines.append(f"def {name}_cond : List Nat := [{', '.join(map(str, conds))}]")
        names.append(name)
    lines += vault_uses()
    lines += clock_movers()
    lines += ["", "end Mfi.Gen.Skel", ""]
    text = "\n".join(lines)
    p = os.path.join(GEN, "Skeletons.lean")
    old = open(p).read() if os.path.exists(p) else None
    if old != text:
        open(p, "w").write(text)
    print("translator/skeleton: Skeletons.lean", "rewritten" if old != text else "unchanged")


if __name__ == "__main__":
    main()
