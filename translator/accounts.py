#!/usr/bin/env python3
"""Translator part 2: the per-instruction account-constraint table.

Parses every `#[derive(Accounts)] pub struct …` under programs/marginfi/src/instructions/** and the
instruction → struct map of programs/marginfi/src/lib.rs and writes Mfi/Gen/Constraints.lean:
enumerations of struct names and field names (constructors, so that `decide` works), and for every
struct the list of fields with their Anchor type class, `mut` / `init` / `close`, `has_one` targets,
`seeds` / `address` presence and each `constraint = …` expression classified against a closed
pattern list (anything unrecognised is kept as `.other <n>` and listed in a comment)."""
import re, os, sys, hashlib

REPO = os.environ.get("VERIF_REPO", "/repo")
VERIF = os.path.dirname(os.path.dirname(os.path.abspath(__file__)))
GEN = os.path.join(VERIF, "lean", "Mfi", "Gen")
SRC = os.path.join(REPO, "programs/marginfi/src")


def strip_comments(src):
    src = re.sub(r"/\*.*?\*/", " ", src, flags=re.S)
    return re.sub(r"//[^\n]*", "", src)


def match_close(s, i, open_ch, close_ch):
    depth = 0
    j = i
    while j < len(s):
        c = s[j]
        if c == open_ch:
            depth += 1
        elif c == close_ch:
            depth -= 1
            if depth == 0:
                return j
        j += 1
    raise ValueError("unbalanced")


def split_top(s):
    """split on commas not nested in () [] {} <>-free (we do not track <> because of comparisons)"""
    out, depth, cur = [], 0, []
    for c in s:
        if c in "([{":
            depth += 1
        elif c in ")]}":
            depth -= 1
        if c == "," and depth == 0:
            out.append("".join(cur).strip())
            cur = []
        else:
            cur.append(c)
    t = "".join(cur).strip()
    if t:
        out.append(t)
    return out


def norm(e):
    return re.sub(r"\s+", "", e)


def classify(expr):
    e = norm(expr)
    m = re.fullmatch(r"\(?!(\w+)\.load\(\)\?\.is_protocol_paused\(\)\)?", e)
    if m:
        return ("notPaused", m.group(1))
    # (the names of the `let`-bound locals are irrelevant: back-references tie each use to its binding)
    m = re.fullmatch(r"\{let(\w+)=(\w+)\.load\(\)\?;let(\w+)=(\w+)\.load\(\)\?;is_signer_authorized\(&\1,\3\.admin,(\w+)\.key\(\),(true|false)\)\}", e)
    if m and m.group(1) != m.group(3):
        return ("signerAuth", m.group(2), m.group(5), m.group(6))
    m = re.fullmatch(r"\{let(\w+)=(\w+)\.load\(\)\?;account_not_frozen_for_authority\(&\1,(\w+)\.key\(\)\)\}", e)
    if m:
        return ("notFrozen", m.group(2), m.group(3))
    m = re.fullmatch(r"is_(marginfi|kamino|drift|solend)_asset_tag\((\w+)\.load\(\)\?\.config\.asset_tag\)", e)
    if m:
        return ("assetTag", m.group(1), m.group(2))
    m = re.fullmatch(r"!\(?(\w+)\.load\(\)\?\.get_flag\((\w+)\)\)?", e)
    if m:
        return ("flagClear", m.group(1), m.group(2))
    m = re.fullmatch(r"\(?(\w+)\.load\(\)\?\.get_flag\((\w+)\)\)?", e)
    if m:
        return ("flagSet", m.group(1), m.group(2))
    # conjunction of account-flag tests:  {let acc = X.load()?; [!]acc.get_flag(F) && …}  or  {[!]X.load()?.get_flag(F)}
    m = re.fullmatch(r"\{let(\w+)=(\w+)\.load\(\)\?;(.*)\}", e)
    terms = None
    if m:
        v, acct, rest = m.group(1), m.group(2), m.group(3)
        parts = rest.split("&&")
        if all(re.fullmatch(r"!?" + re.escape(v) + r"\.get_flag\(\w+\)", t) for t in parts):
            terms = [(re.search(r"get_flag\((\w+)\)", t).group(1), not t.startswith("!")) for t in parts]
    else:
        m2 = re.fullmatch(r"\{(!?)(\w+)\.load\(\)\?\.get_flag\((\w+)\)\}", e)
        if m2:
            acct = m2.group(2)
            terms = [(m2.group(3), m2.group(1) == "")]
    if terms is not None:
        return ("flags", acct, terms)
    m = re.fullmatch(r"\{let(\w+)=(\w+)\.load\(\)\?;let(\w+)=(\w+)\.load\(\)\?;let(\w+):I80F48=\3\.config\.asset_weight_init\.into\(\);!\(\1\.get_flag\(ACCOUNT_IN_RECEIVERSHIP\)&&\5==I80F48::ZERO\)\}", e)
    if m and len({m.group(1), m.group(3), m.group(5)}) == 3:
        return ("zeroWeightRecv", m.group(2), m.group(4))
    m = re.fullmatch(r"(\w+)\.load\(\)\?\.admin==(\w+)\.key\(\)", e)
    if m:
        return ("adminEq", m.group(1), m.group(2))
    # a venue account (Solend reserve) must have been refreshed in the current slot: `!X.load()?.is_stale()?`
    m = re.fullmatch(r"!(\w+)\.load\(\)\?\.is_stale\(\)\?", e)
    if m:
        return ("venueFresh", m.group(1))
    # the receiver named by a liquidation record is this signer:  {let req = R.load()?; req.liquidation_receiver == S.key()}
    m = re.fullmatch(r"\{let(\w+)=(\w+)\.load\(\)\?;\1\.liquidation_receiver==(\w+)\.key\(\)\}", e)
    if m:
        return ("receiverIs", m.group(2), m.group(3))
    return ("other", e)


def error_codes():
    """name → number of every MarginfiError (same parse as consts.py)"""
    src = open(os.path.join(SRC, "errors.rs")).read()
    m = re.search(r"pub enum MarginfiError\s*\{(.*?)\n\}", src, re.S)
    body = re.sub(r"#\[msg\((?:[^()]|\([^()]*\))*\)\]", "", m.group(1), flags=re.S)
    body = re.sub(r"//[^\n]*", "", body)
    out, idx = {}, 0
    for n in [n.strip() for n in body.split(",") if n.strip()]:
        mm = re.fullmatch(r"([A-Za-z0-9_]+)\s*=\s*(\d+)", n)
        if mm:
            n, idx = mm.group(1), int(mm.group(2))
        out[n] = 6000 + idx
        idx += 1
    return out


def err_of(item, default, codes):
    """the error a has_one / constraint item raises: `@ MarginfiError::X` → its number, `@ ErrorCode::…`/none → Anchor's default;
    an error name that cannot be resolved gets 0 (no theorem about a code then holds)"""
    m = re.search(r"@\s*([\w:]+)\s*$", item.strip())
    if not m:
        return default
    name = m.group(1).split("::")[-1]
    if m.group(1).startswith("MarginfiError"):
        return codes.get(name, 0)
    return 0


def parse_structs():
    structs = []
    for root, _, files in os.walk(os.path.join(SRC, "instructions")):
        for fn in sorted(files):
            if not fn.endswith(".rs"):
                continue
            src = strip_comments(open(os.path.join(root, fn)).read())
            for m in re.finditer(r"#\[derive\(Accounts\)\]", src):
                ms = re.compile(r"pub\s+struct\s+(\w+)\s*(<[^>{]*>)?\s*\{").search(src, m.end())
                name = ms.group(1)
                bo = src.index("{", ms.start())
                bc = match_close(src, bo, "{", "}")
                body = src[bo + 1 : bc]
                fields = []
                i = 0
                attrs = []
                while i < len(body):
                    ma = re.compile(r"\s*#\[account\s*\(").match(body, i)
                    if ma:
                        po = ma.end() - 1
                        pc = match_close(body, po, "(", ")")
                        attrs.append(body[po + 1 : pc])
                        i = body.index("]", pc) + 1
                        continue
                    mo = re.compile(r"\s*#\[[^\]]*\]").match(body, i)
                    if mo:
                        i = mo.end()
                        continue
                    mf = re.compile(r"\s*pub\s+(\w+)\s*:\s*").match(body, i)
                    if mf:
                        fname = mf.group(1)
                        # type runs to the next top-level comma
                        j, depth = mf.end(), 0
                        while j < len(body):
                            c = body[j]
                            if c in "<([":
                                depth += 1
                            elif c in ">)]":
                                depth -= 1
                            elif c == "," and depth == 0:
                                break
                            j += 1
                        ty = norm(body[mf.end() : j])
                        fields.append((fname, ty, attrs))
                        attrs = []
                        i = j + 1
                        continue
                    i += 1
                structs.append((name, os.path.relpath(os.path.join(root, fn), SRC), fields))
    return structs


def parse_lib():
    src = strip_comments(open(os.path.join(SRC, "lib.rs")).read())
    out = []
    for m in re.finditer(r"pub\s+fn\s+(\w+)\s*(?:<[^>]*>)?\s*\(\s*(?:mut\s+)?_?ctx\s*:\s*Context\s*<([^)]*?)>\s*[,)]", src, re.S):
        ctx = norm(m.group(2))
        sname = re.split(r"[<,]", ctx.split(",")[-1])[0] if "," in ctx else re.split(r"<", ctx)[0]
        # Context<'_, '_, 'info, 'info, Struct<'info>> or Context<Struct>
        parts = [p for p in re.split(r",", ctx)]
        last = parts[-1]
        sname = re.match(r"(\w+)", last).group(1)
        out.append((m.group(1), sname))
    return out


def ty_class(ty):
    if ty.startswith("Signer<"):
        return ".signer"
    m = re.match(r"(?:Box<)?AccountLoader<'info,([\w:]+)>", ty)
    if m:
        t = m.group(1).split("::")[-1]
        known = {"Bank": "bank", "MarginfiAccount": "marginfiAccount", "MarginfiGroup": "group", "FeeState": "feeState",
                 "StakedSettings": "stakedSettings", "LiquidationRecord": "liquidationRecord", "BankMetadata": "bankMetadata"}
        return "(.loader .%s)" % known.get(t, "foreign")
    if ty.startswith("InterfaceAccount<") or ty.startswith("Box<InterfaceAccount<") or ty.startswith("Account<") or ty.startswith("Box<Account<"):
        if "TokenAccount" in ty:
            return ".tokenAccount"
        if "Mint" in ty:
            return ".mint"
        return ".typedAccount"
    if ty.startswith("Program<") or ty.startswith("Interface<"):
        return ".program"
    if ty.startswith("Sysvar<"):
        return ".sysvar"
    if ty.startswith("SystemAccount<"):
        return ".systemAccount"
    if ty.startswith("AccountInfo<") or ty.startswith("UncheckedAccount<"):
        return ".unchecked"
    return ".otherTy"


def lean_ident(s):
    return re.sub(r"[^A-Za-z0-9_]", "_", s)


def main():
    os.makedirs(GEN, exist_ok=True)
    structs = parse_structs()
    ixmap = parse_lib()
    field_names = sorted({f for _, _, fs in structs for f, _, _ in fs})
    flag_names = set()
    others = []
    L = []
    L.append("-- GENERATED by translator/accounts.py from programs/marginfi/src/instructions/** and lib.rs. Do not edit.")
    L.append("namespace Mfi.Gen.Acc\n")
    L.append("inductive S\n  | " + "\n  | ".join(lean_ident(n) for n, _, _ in structs) + "\n  deriving DecidableEq, Repr\n")
    L.append("inductive F\n  | " + "\n  | ".join("f_" + lean_ident(f) for f in field_names) + "\n  | f_unknown\n  deriving DecidableEq, Repr\n")
    L.append("inductive Zc | bank | marginfiAccount | group | feeState | stakedSettings | liquidationRecord | bankMetadata | foreign\n  deriving DecidableEq, Repr")
    L.append("inductive Ty | signer | loader (z : Zc) | tokenAccount | mint | typedAccount | program | sysvar | systemAccount | unchecked | otherTy\n  deriving DecidableEq, Repr")
    L.append("inductive TagK | marginfi | kamino | drift | solend deriving DecidableEq, Repr")
    body = []
    chk_body = []
    codes = error_codes()
    for name, path, fs in structs:
        flines = []
        chk_lines = []
        for fname, ty, attrs in fs:
            items = []
            for a in attrs:
                items += split_top(a)
            is_mut = any(it == "mut" for it in items)
            is_init = any(it in ("init", "init_if_needed", "zero") for it in items)
            has_seeds = any(it.startswith("seeds") and not it.startswith("seeds::") for it in items)
            has_addr = any(re.match(r"address\s*=", it) for it in items)
            close = None
            has_one = []
            has_one_err = []
            cons = []
            cons_err = []
            tok_auth = None
            tok_mint = None
            for it in items:
                m = re.match(r"has_one\s*=\s*(\w+)", it)
                if m:
                    has_one.append(m.group(1))
                    has_one_err.append(err_of(it, 2001, codes))
                m = re.match(r"close\s*=\s*(\w+)", it)
                if m:
                    close = m.group(1)
                m = re.match(r"(?:token|associated_token)::authority\s*=\s*(\w+)", it)
                if m:
                    tok_auth = m.group(1)
                m = re.match(r"(?:token|associated_token)::mint\s*=\s*(\w+)", it)
                if m:
                    tok_mint = m.group(1)
                m = re.match(r"constraint\s*=\s*(.*)$", it, re.S)
                if m:
                    expr = m.group(1)
                    cons_err.append(err_of(it, 2003, codes))
                    # strip trailing "@ Error"
                    expr = re.sub(r"@\s*[\w:]+\s*$", "", expr.strip()).strip()
                    cons.append(classify(expr))
            cl = []
            for t, e in zip(has_one, has_one_err):
                chk_lines.append("(.hasOne .f_%s %s, %d)" % (lean_ident(fname), (".f_" + lean_ident(t)) if t in field_names else ".f_unknown", e))
            for ci, c in enumerate(cons):
                n_before = len(cl)
                if c[0] == "notPaused":
                    cl.append("(.notPaused .f_%s)" % lean_ident(c[1]))
                elif c[0] == "signerAuth":
                    cl.append("(.signerAuth .f_%s .f_%s %s)" % (lean_ident(c[1]), lean_ident(c[2]), c[3]))
                elif c[0] == "notFrozen":
                    cl.append("(.notFrozen .f_%s .f_%s)" % (lean_ident(c[1]), lean_ident(c[2])))
                elif c[0] == "assetTag":
                    cl.append("(.assetTag .%s .f_%s)" % (c[1], lean_ident(c[2])))
                elif c[0] in ("flagClear", "flagSet"):
                    flag_names.add(c[2])
                    cl.append("(.%s .f_%s .fl_%s)" % (c[0], lean_ident(c[1]), c[2]))
                elif c[0] == "flags":
                    for fl_name, want in c[2]:
                        flag_names.add(fl_name)
                        cl.append("(.%s .f_%s .fl_%s)" % ("flagSet" if want else "flagClear", lean_ident(c[1]), fl_name))
                elif c[0] == "zeroWeightRecv":
                    cl.append("(.zeroWeightRecv .f_%s .f_%s)" % (lean_ident(c[1]), lean_ident(c[2])))
                elif c[0] == "adminEq":
                    cl.append("(.adminEq .f_%s .f_%s)" % (lean_ident(c[1]), lean_ident(c[2])))
                elif c[0] == "venueFresh":
                    cl.append("(.venueFresh .f_%s)" % lean_ident(c[1]))
                elif c[0] == "receiverIs":
                    cl.append("(.receiverIs .f_%s .f_%s)" % (lean_ident(c[1]), lean_ident(c[2])))
                else:
                    others.append((name, fname, c[1]))
                    cl.append("(.other %d)" % (len(others) - 1))
                for entry in cl[n_before:]:
                    chk_lines.append("(.cons .f_%s %s, %d)" % (lean_ident(fname), entry, cons_err[ci]))
            def fl(names):
                return "[" + ", ".join(".f_" + lean_ident(x) if x in field_names else ".f_unknown" for x in names) + "]"
            flines.append(
                "    { name := .f_%s, ty := %s, isMut := %s, isInit := %s, hasSeeds := %s, hasAddress := %s, hasOne := %s, close := %s, tokenAuthority := %s, tokenMint := %s, cons := [%s] }"
                % (lean_ident(fname), ty_class(ty), str(is_mut).lower(), str(is_init).lower(), str(has_seeds).lower(), str(has_addr).lower(),
                   fl(has_one), ("some .f_" + lean_ident(close)) if close and close in field_names else "none",
                   ("some .f_" + lean_ident(tok_auth)) if tok_auth and tok_auth in field_names else "none",
                   ("some .f_" + lean_ident(tok_mint)) if tok_mint and tok_mint in field_names else "none",
                   ", ".join(cl)))
        body.append("  | .%s => [\n%s ]" % (lean_ident(name), ",\n".join(flines)))
        chk_body.append("  | .%s => [%s]" % (lean_ident(name), ", ".join(chk_lines)))
    L.append("inductive Fl\n  | " + "\n  | ".join("fl_" + f for f in sorted(flag_names)) + "\n  deriving DecidableEq, Repr\n")
    L.append("""inductive C
  | notPaused (group : F)
  | signerAuth (acct signer : F) (allowReceivership : Bool)
  | notFrozen (acct signer : F)
  | assetTag (k : TagK) (bank : F)
  | flagClear (acct : F) (fl : Fl)
  | flagSet (acct : F) (fl : Fl)
  | zeroWeightRecv (acct bank : F)
  | adminEq (group admin : F)
  | venueFresh (venue : F)
  | receiverIs (record who : F)
  | other (n : Nat)
  deriving DecidableEq, Repr

structure Field where
  name : F
  ty : Ty
  isMut : Bool
  isInit : Bool
  hasSeeds : Bool
  hasAddress : Bool
  hasOne : List F
  close : Option F
  tokenAuthority : Option F
  tokenMint : Option F
  cons : List C
  deriving Repr
""")
    L.append("def fields : S → List Field")
    L += body
    L.append("")
    L.append("""/-- one account check of a struct: a `has_one` or a classified `constraint = …` of a field -/
inductive Chk
  | hasOne (field target : F)
  | cons (field : F) (c : C)
  deriving DecidableEq, Repr

/-- every `has_one` / `constraint` of a struct in Anchor's evaluation order (fields in declaration order; within a field
    the `has_one`s, then the raw constraints, each in source order) with the error it raises: the number of the
    `@ MarginfiError::X` attached to it, Anchor's ConstraintHasOne 2001 / ConstraintRaw 2003 when none is attached -/""")
    L.append("def checks : S → List (Chk × Nat)")
    L += chk_body
    L.append("")
    L.append("def allStructs : List S := [" + ", ".join("." + lean_ident(n) for n, _, _ in structs) + "]\n")
    # instruction map
    snames = {n for n, _, _ in structs}
    L.append("inductive Ix\n  | " + "\n  | ".join("ix_" + lean_ident(i) for i, _ in ixmap) + "\n  deriving DecidableEq, Repr\n")
    L.append("def ixStruct : Ix → Option S")
    for i, sn in ixmap:
        L.append("  | .ix_%s => %s" % (lean_ident(i), ("some ." + lean_ident(sn)) if sn in snames else "none"))
    L.append("")
    L.append("def allIx : List Ix := [" + ", ".join(".ix_" + lean_ident(i) for i, _ in ixmap) + "]\n")
    # fingerprints of the unrecognised constraint expressions (whitespace-normalised text, polynomial hash mod 2^61-1):
    # a theorem pins them, so that an edit of any constraint the translator cannot classify is a broken obligation
    def fp(t):
        h = 0
        for ch in t:
            h = (h * 1000003 + ord(ch)) % ((1 << 61) - 1)
        return h
    L.append("/-- (struct, field, fingerprint of the normalised expression) of every constraint kept as `.other n`, in order -/")
    L.append("def otherFingerprints : List (S × F × Nat) := [" + ", ".join("(.%s, .f_%s, %d)" % (lean_ident(sn), lean_ident(fn), fp(e)) for (sn, fn, e) in others) + "]\n")
    L.append("/- unrecognised constraint expressions (kept as `.other n`):")
    for n, (sn, fn, e) in enumerate(others):
        L.append(f"  {n}: {sn}.{fn}: {e[:300]}")
    L.append("-/")
    L.append("\nend Mfi.Gen.Acc\n")
    text = "\n".join(L)
    p = os.path.join(GEN, "Constraints.lean")
    old = open(p).read() if os.path.exists(p) else None
    if old != text:
        open(p, "w").write(text)
    print(f"translator/accounts: {len(structs)} structs, {len(ixmap)} instructions, {len(others)} unclassified constraints; Constraints.lean",
          "rewritten" if old != text else "unchanged")


if __name__ == "__main__":
    main()
