#!/bin/sh
# usage: tools/sweep.sh <tier> <seed>...   — run every claimed check with each seed on the current tree; print anything that is not a clean pass
cd "$(dirname "$0")/.."
TIER=$1; shift
for s in "$@"; do
  echo "== seed $s"
  VERIF_SEED=$s sh tools/runall.sh $TIER 2>&1 | grep -v "KNOWN-FINDING" | grep -E "VIOLATION|failing|error|Traceback" | cut -c1-300
done
echo "sweep done"
