#!/bin/sh
# usage: tools/mkseed.sh <property id> <tag>   — scratch worktree /tmp/seed/<id><tag> + prompt /tmp/seed/<id><tag>.prompt
# (the prompt contains ONLY the property text and the worktree path; nothing from /verif)
ID=$1; TAG=$2; W=/tmp/seed/$ID$TAG
mkdir -p /tmp/seed
git -C /repo worktree add --detach $W HEAD >/dev/null 2>&1
python3 - "$ID" "$TAG" <<'PY'
import json,sys
pid,tag=sys.argv[1],sys.argv[2]
for l in open('/verif/properties.jsonl'):
    d=json.loads(l)
    if d['id']==pid:
        t=f"{d['id']}: {d['title']}\n\n{d['statement']}\n\nQuantified: {d['quantifier']['text']}\n\nRelevant code (anchors): {', '.join(d['anchors']['files'])}\n"
        p=open('/verif/tools/seed_prompt.tmpl').read().replace('@ID@',pid+tag).replace('@PROP@',t)
        p+="\nNote: pick a clause of the property other than the most obvious one (the statement has several clauses; any one of them may be broken), and a part of the code where a reviewer would not look first.\n"
        open(f'/tmp/seed/{pid}{tag}.prompt','w').write(p)
PY
echo $W
