#!/usr/bin/env python3
"""Regenerates /verif/DESIGN.md from docs/DESIGN.head.md + checklib/props.py + Lean sources + known findings + seeds."""
import json, os, re, glob, subprocess, sys
V = os.path.dirname(os.path.dirname(os.path.abspath(__file__)))
sys.path.insert(0, V)
from checklib.props import PROPS, MANIFEST_TEXT  # noqa

def lines(pattern):
    n = 0
    for f in glob.glob(os.path.join(V, pattern), recursive=True):
        n += sum(1 for _ in open(f, errors="ignore"))
    return n

def strip_comments(src):
    src = re.sub(r"/-.*?-/", "", src, flags=re.S)
    return re.sub(r"--[^\n]*", "", src)

def theorems(pid):
    p = os.path.join(V, "lean", "Mfi", "Props", f"{pid}.lean")
    if not os.path.exists(p):
        return []
    return list(dict.fromkeys(re.findall(r"^\s*theorem\s+([A-Za-z0-9_'.?!]+)", strip_comments(open(p).read()), re.M)))

props = {json.loads(l)["id"]: json.loads(l) for l in open(os.path.join(V, "properties.jsonl"))}
seeds = {}
for d in sorted(glob.glob(os.path.join(V, "seeded", "*", "meta.json"))):
    m = json.load(open(d))
    seeds.setdefault(m["property"], []).append((os.path.basename(os.path.dirname(d)), m))
known = json.load(open(os.path.join(V, "known_findings.json")))

FAMILY_DESC = {
    "fx": "real `fixed` I80F48 `checked_*` / wrapping ops vs `Mfi.Fx`",
    "panic": "`PanicState::{pause,unpause,unpause_if_expired,can_pause,is_expired}`, the three panic handlers' logic, `PanicStateCache` propagation",
    "curve": "`InterestRateConfig::validate`, `InterestRateCalc::calc_interest_rate`, `calc_interest_rate_accrual_state_changes`",
    "integr": "all venue math of `type-crate/src/types/price.rs` and the Kamino / Solend / Drift mocks",
    "wrapper": "`BankAccountWrapper` deposit / repay / withdraw / borrow / ignore-cap variants / withdraw_all / repay_all / close_balance / claim_emissions / settle on real `Bank` + `Balance`",
    "bank": "`Bank::accrue_interest`, `get_remaining_deposit_capacity`, `socialize_loss`, `check_utilization_ratio`, share changes with limits",
    "tokenfee": "Token-2022 `TransferFee::calculate_fee` vs `calculate_pre_fee_spl_deposit_amount`",
    "bankstate": "`validate_bank_state` for every operational state × instruction kind",
    "signer": "`is_signer_authorized`, `account_not_frozen_for_authority`",
    "admin": "`BankConfig::validate`, `Bank::configure`, `configure_unfrozen_fields_only`, e-mode `validate_entries_with_liability_weights`, `override_emissions_flag` / `verify_emissions_flags`, `update_withdrawn_equity`",
    "account": "`find_or_create`, `sort_balances`, `validate_asset_tags`, `can_be_closed` on real `LendingAccount`s (incl. panics)",
    "fees": "the REAL `lending_pool_collect_bank_fees` instruction through real dispatch (SPL / Token-2022 / transfer-fee mints)",
    "tx": "the REAL `validate_instructions` and `check_flashloan_can_start` on serialized Instructions sysvars over the alphabet of relevant programs / discriminators",
    "health": "the REAL risk engine through the real `lending_account_pulse_health` instruction: initial / maintenance / equity sums, the three verdicts, oracle error bookkeeping, on generated portfolios with Fixed and Pyth oracles",
    "oracle": "the REAL `OraclePriceFeedAdapter::try_from_bank` + `get_price_of_type` on fabricated Fixed / Pyth push / Switchboard pull accounts",
    "liq": "the amounts block of `lending_account_liquidate` replayed with the real `calc_value` / `calc_amount` / fee constants, and both functions on their own",
    "bkr": "the REAL `lending_pool_handle_bankruptcy` instruction through real dispatch vs the model of the whole settlement",
    "ixf": "the REAL `lending_account_deposit / withdraw / borrow / repay / close_balance`, `purge_deleverage_balance`, `lending_pool_close_bank` through real dispatch along generated scenarios vs `Mfi.Ix` (bank, position, tokens bit for bit)",
    "liqix": "liquidations the REAL `lending_account_liquidate` accepted vs `Ix.liquidate` (both banks, four positions, insurance tokens)",
    "cfgix": "the REAL `lending_pool_configure_bank` (frozen and unfrozen branch, e-mode re-validation) through real dispatch vs `Admin.ixConfigureBank`",
    "liteix": "the REAL `configure_bank_interest_only` / `_limits_only` / `migrate_curve` through real dispatch vs the Admin / Interest models",
    "venue": "the REAL `kamino_deposit` / `kamino_withdraw` against the Kamino stand-in vs `Mfi.Venue`",
    "xfer": "the REAL `transfer_to_new_account` (both entrypoints) through real dispatch vs `Mfi.Transfer`",
    "world": "the REAL five user instructions, `lending_account_liquidate` and `lending_pool_handle_bankruptcy` through real dispatch on contexts with any combination of refusal causes vs the whole-instruction model `Mfi.World` (exact error code or whole post-state: slot arrays, books, tokens, window, flags) — §2.5",
}
MON_DESC = {
    "IX": "`scen.rs`: generated instruction scenarios (deposit/withdraw/borrow/repay/accrue/collect/close, clock advances, SPL / Token-2022 / fee mints) through real dispatch; after every instruction the predicates of C01 C02 C06 C16 C17 (+ store unchanged on rejection)",
    "BR": "`mon_c10.rs`: real multi-instruction transactions (receivership and flash-loan brackets with mutations, empty brackets, foreign programs) executed atomically",
    "TXS": "`fam_tx.rs::monitor`: bracket-shape predicates on everything the real introspection functions accept",
    "ORA": "`fam_oracle.rs::monitor`: exact-arithmetic predicates on everything the real oracle adapters accept",
    "GATE": "`mon_c04.rs`: real borrow/withdraw with amounts bisected to the accept/reject boundary",
    "LIQ": "`mon_c05.rs`: the real classic liquidation, seize amounts from 1 unit to beyond the collateral, leveraged liquidators",
    "BKR": "`fam_bkr.rs::monitor`: the real bankruptcy instruction, signers × permissionless flag, insurance below/at/above the bad debt, bank-wiping losses",
}

def status():
    out = []
    n_thm = sum(len(theorems(p)) for p in PROPS)
    out.append(f"All **{len(PROPS)} of 20** properties are claimed in `MANIFEST.json` at level `proof`; `not_applicable` is empty. "
               f"{n_thm} property theorems are kernel-checked and axiom-audited on every run "
               f"(axioms ⊆ {{propext, Classical.choice, Quot.sound}}; no `sorry`, no `native_decide`).")
    fixed = [k for k in known if k["kind"] == "fixed"]
    finds = [k for k in known if k["kind"] == "finding"]
    out.append(f"The machinery found **{len(fixed) + len(finds)} genuine defects** in the pinned tree: {len(fixed)} were repaired by minimal unguarded `fix:` commits in `/repo` "
               f"(the 172-test suite still passes), {len(finds)} are recorded as known findings (§7).")
    ns = sum(len(v) for v in seeds.values())
    out.append(f"**{ns} seeded breaking changes** produced by independent sub-agents (one or more per property, for {len(seeds)} properties) are stored under `seeded/`; "
               f"every one of them is now reported as a `VIOLATION` — with a concrete failing input, except for the few whose only manifestation is inside an instruction that cannot be dispatched in this sandbox (a constraint of a Solend instruction: reported with `no-failing-input-found`, the replay naming the broken theorem) — and the checks that missed one at first were strengthened (§8). The whole stored set is re-run against the current machinery from time to time (`/tmp/vsweep2/reseed.sh`-style loop over `seeded/*/patch.diff`).")
    out.append("")
    out.append("| property | theorems | families (ops/run, quick) | monitors | seeds |")
    out.append("|---|---|---|---|---|")
    for pid in sorted(PROPS):
        cfg = PROPS[pid]
        fams = ", ".join(f"{k} {v}" for k, v in cfg.get("families", {}).items())
        mons = []
        if cfg.get("monitor"): mons.append(f"{pid} {cfg['monitor']}")
        if cfg.get("ix_monitor"): mons.append(f"IX {cfg['ix_monitor']}")
        if cfg.get("br_monitor"): mons.append(f"BR {cfg['br_monitor']}")
        for k, v in cfg.get("tagged_monitors", {}).items(): mons.append(f"{k} {v}")
        out.append(f"| {pid} {props[pid]['title'].split(':')[0][:48]} | {len(theorems(pid))} | {fams} | {', '.join(mons)} | {len(seeds.get(pid, []))} |")
    return "\n".join(out)

def properties():
    out = []
    for pid in sorted(PROPS):
        cfg, txt = PROPS[pid], MANIFEST_TEXT[pid]
        out.append(f"### {pid} — {props[pid]['title']}")
        out.append("")
        out.append(f"*Technique*: {txt['technique']}.")
        out.append("")
        out.append(txt["text"])
        out.append("")
        th = theorems(pid)
        out.append(f"*Theorems* (`lean/Mfi/Props/{pid}.lean`, {len(th)}): " + ", ".join(f"`{t}`" for t in th) + ".")
        out.append("")
        fams = cfg.get("families", {})
        if fams:
            out.append("*Tie to the code (correspondence families)*: " + "; ".join(f"`{k}` ({v} ops/run)" for k, v in fams.items()) + " — see §5.")
        mons = []
        if cfg.get("monitor"): mons.append(f"`monitor {pid}` (`harness/src/mon_{pid.lower()}.rs`, {cfg['monitor']} cases)")
        if cfg.get("ix_monitor"): mons.append(f"`IX` ({cfg['ix_monitor']})")
        if cfg.get("br_monitor"): mons.append(f"`BR` ({cfg['br_monitor']})")
        for k, v in cfg.get("tagged_monitors", {}).items(): mons.append(f"`{k}` ({v})")
        if mons:
            out.append("")
            out.append("*Failing-input search / end-to-end monitors*: " + ", ".join(mons) + ".")
        out.append("")
        out.append("*Modelled rather than verified / assumptions*:")
        for a in cfg.get("assumptions", []):
            out.append(f"* {a}")
        kf = [k for k in known if k["property"] == pid]
        if kf:
            out.append("")
            out.append("*Defects*: " + "; ".join(f"{k['id']} ({'fixed ' + k['commit'] if k['kind']=='fixed' else 'known finding'})" for k in kf) + " — §7.")
        if seeds.get(pid):
            out.append("")
            out.append("*Seeded changes*: " + ", ".join(f"`{n}`" for n, _ in seeds[pid]) + " — §8.")
        out.append("")
    return "\n".join(out)

def families():
    used = {}
    for pid, cfg in PROPS.items():
        for f in cfg.get("families", {}):
            used.setdefault(f, []).append(pid)
    out = ["| family | real code exercised | properties |", "|---|---|---|"]
    for f in sorted(used):
        out.append(f"| `{f}` | {FAMILY_DESC.get(f, '')} | {', '.join(sorted(used[f]))} |")
    out.append("")
    out.append("Tagged monitors (real code only; predicates written from the property text):")
    out.append("")
    out.append("| monitor | what it runs |")
    out.append("|---|---|")
    for k, v in MON_DESC.items():
        out.append(f"| `{k}` | {v} |")
    return "\n".join(out)

def findings():
    out = ["| id | property | status | what failed on the pinned tree |", "|---|---|---|---|"]
    for k in known:
        st = f"**fixed** `{k['commit']}`" if k["kind"] == "fixed" else "**known finding** (reported as `KNOWN-FINDING`, exit 0)"
        what = k.get("what_failed") or k.get("what_fails") or ""
        out.append(f"| {k['id']} | {k['property']} | {st} | {what} |")
    out.append("")
    out.append("Each `fix:` commit is a minimal unguarded patch a maintainer would accept (one clamp, one rejected "
               "boundary, one reordered call, one added constraint, one mask, one checked conversion, one validation call); "
               "the existing suite passes unedited with all of them. A `fixed` entry suppresses nothing: the full-strength "
               "theorem is proved about the repaired code and the check reports the violation again if it returns.")
    out.append("")
    for k in known:
        if k["kind"] == "finding":
            out.append(f"* **{k['id']}** is matched by the substring `{k['match']}` of the monitor's message, so any *other* violation of {k['property']} is still reported. "
                       + ("Not repaired because the repair is a new ratio computation at four oracle call sites (not small); the excess is bounded by the denominator truncation, and the Lean witness `adjusted_price_can_exceed_exact` shows the deviation in the model." if k["id"] == "C20-F1" else
                          "Found by the venue monitors on a multi-seed sweep of the unchanged tree (seed 61): the same truncation as C20-F1, showing in `collateral_to_liquidity` as one native unit above the exact value when that value lies just below a whole number; with the handlers' one-unit tolerance a venue that overpays by two units is accepted (the tokens are the venue's, not marginfi's). Lean witness `conversion_can_exceed_exact`; the monitors name exactly this case (own announcement above the exact value, payment within one unit of it) and report any other overpayment as before." if k["id"] in ("C20-F2", "C03-F1") else
                          "Not repaired: `BankConfig::validate` would have to reject an operational state at creation; the bank is dead on arrival and no user funds can enter it, so it is recorded rather than patched."))
    return "\n".join(out)

def seed_table():
    out = ["| seed | property | change | first result | now caught by |", "|---|---|---|---|---|"]
    for pid in sorted(seeds):
        for name, m in seeds[pid]:
            note = m.get("detection_note", "")
            first = "caught" if note.startswith("caught") else ("**missed**" if "missed" in note.lower() or "MISSED" in " ".join(m.get("checks_run", [])) else "correspondence broke, `no-failing-input-found`" if "no failing input" in note or "no-failing-input" in note else "caught")
            now = m.get("checks_run", [""])[-1]
            out.append(f"| `{name}` | {pid} | {m['change'][:260]} | {first} | {now[:420]} |")
    out.append("")
    out.append("Strengthenings made because of a seed (all permanent):")
    out.append("")
    for pid in sorted(seeds):
        for name, m in seeds[pid]:
            note = m.get("detection_note", "")
            if note and not note.startswith("caught at first"):
                out.append(f"* `{name}`: {note}")
    return "\n".join(out)

head = open(os.path.join(V, "docs", "DESIGN.head.md")).read()
rep = {
    "@STATUS@": status(), "@PROPERTIES@": properties(), "@FAMILIES@": families(), "@FINDINGS@": findings(), "@SEEDS@": seed_table(),
    "@MODEL_LINES@": str(lines("lean/Mfi/Model/*.lean") + lines("lean/Mfi/Fx.lean")),
    "@PROPS_LINES@": str(lines("lean/Mfi/Props/*.lean")),
    "@NTHM@": str(sum(len(theorems(p)) for p in PROPS)),
    "@LEAN_LINES@": str(lines("lean/Mfi/Model/*.lean") + lines("lean/Mfi/Props/*.lean") + lines("lean/Mfi/Lemmas/*.lean") + lines("lean/Mfi/Driver/*.lean") + lines("lean/Mfi/Fx.lean")),
    "@HARNESS_LINES@": str(lines("harness/src/*.rs") + lines("harness/src/world/*.rs")),
    "@PY_LINES@": str(lines("translator/*.py") + lines("check") + lines("checklib/*.py") + lines("tools/*.py")),
}
for k, v in rep.items():
    head = head.replace(k, v)
open(os.path.join(V, "DESIGN.md"), "w").write(head)
print("DESIGN.md:", len(head.splitlines()), "lines")
