#!/bin/sh
# usage: tools/corr.sh <family> <seed> <n>   — ad-hoc correspondence run, prints disagreements
cd "$(dirname "$0")/.."
./harness/target/debug/mfi-harness gen $1 $2 $3 | grep '^@' | cut -c2- > /tmp/corr.$1.txt
sed 's/ => .*//' /tmp/corr.$1.txt | ./lean/.lake/build/bin/driver > /tmp/corr.$1.model
sed 's/.* => //' /tmp/corr.$1.txt > /tmp/corr.$1.impl
echo "ops $(wc -l < /tmp/corr.$1.txt) disagreements $(paste -d'|' /tmp/corr.$1.impl /tmp/corr.$1.model | awk -F'|' '$1!=$2' | wc -l)"
paste -d'|' /tmp/corr.$1.txt /tmp/corr.$1.model | awk -F'|' '{n=split($1,a," => "); if (a[2]!=$2) print $1 " || MODEL: " $2}' | head -${4:-5}
