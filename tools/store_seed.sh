#!/bin/sh
# usage: store_seed.sh <tag e.g. C12b> <dirname under seeded/>  — confirm in the scratch worktree, copy artefacts, remove worktree
T=$1; N=$2
D=/verif/seeded/$N
mkdir -p $D
sh /verif/tools/confirm_seed.sh /tmp/seed/$T /tmp/seed/$T.patch.diff > $D/confirm.txt 2>&1
cp /tmp/seed/$T.patch.diff $D/patch.diff
cp /tmp/seed/$T.demo.rs $D/demo_seed_demo.rs
cat $D/confirm.txt
git -C /repo worktree remove --force /tmp/seed/$T
git -C /repo worktree prune
rm -rf /tmp/seed/$T
