#!/usr/bin/env python3
"""Writes /verif/MANIFEST.json from checklib/props.py (single source of truth)."""
import json, os, sys
VERIF = os.path.dirname(os.path.dirname(os.path.abspath(__file__)))
sys.path.insert(0, VERIF)
from checklib.props import PROPS, MANIFEST_TEXT

ALL = [f"C{i:02d}" for i in range(1, 21)]
checks = []
for pid in ALL:
    if pid not in PROPS:
        continue
    t = MANIFEST_TEXT[pid]
    checks.append({
        "property_id": pid,
        "quick_cmd": f"./check {pid} --tier quick",
        "thorough_cmd": f"./check {pid} --tier thorough",
        "evidence_file": f"/verif/evidence/{pid}.json",
        "replay_cmd_template": f"./check {pid} --replay {{path}}",
        "engine": "mfi-lean+mfi-harness",
        "level_claimed": {"category": "proof", "text": t["text"], "design_ref": t["design_ref"]},
        "level_note": t["note"],
        "technique": t["technique"],
    })
na = [{"property_id": p, "reason": "not claimed yet in this commit: its theorem module and correspondence family are still under construction (see DESIGN.md §9 for the order of work); no other technique is substituted"} for p in ALL if p not in PROPS]
m = {
    "version": 1,
    "setup_cmd": "./setup.sh",
    "hooks": {
        "guard": "mrgnlabs_marginfi_v2_verif",
        "enable": "none needed: the harness calls only pub items of the marginfi / marginfi-type-crate crates through a path dependency on /repo (no source hooks exist; the guard name is reserved)",
        "baseline_off_cmd": "cd /repo/$(cat /w/out/cargo_root.txt) && cargo nextest run --workspace --no-fail-fast --tool-config-file pb:/w/lib/nextest.toml --profile pb --test-threads 8 --offline || cargo test --workspace --no-fail-fast --offline",
        "source_commits": [],
        "add_only": True,
    },
    "engines": [
        {"name": "mfi-lean", "path": "/verif/lean", "serves_properties": [c["property_id"] for c in checks],
         "kind_free_text": "Lean 4 model (Mfi/Model), generated tables (Mfi/Gen, translator), property theorems (Mfi/Props), natively linked model driver"},
        {"name": "mfi-harness", "path": "/verif/harness", "serves_properties": [c["property_id"] for c in checks],
         "kind_free_text": "Rust crate with a path dependency on /repo: runs the real code in-process for the correspondence check, monitors and failing-input search"},
    ],
    "checks": checks,
    "not_applicable": na,
    "notes": "All checks: ./check <id> --tier quick|thorough. Known findings: /verif/known_findings.json. See DESIGN.md.",
}
json.dump(m, open(os.path.join(VERIF, "MANIFEST.json"), "w"), indent=1)
print("MANIFEST.json:", len(checks), "checks,", len(na), "not_applicable")
