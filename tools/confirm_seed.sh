#!/bin/sh
# usage: confirm_seed.sh <worktree> <patch>   — confirms: with patch: existing tests pass + demo fails; without: all pass
W=$1; P=$2
cd $W || exit 2
echo "== with change (demo expected to FAIL, everything else pass)"
git apply --check -R $P 2>/dev/null || git apply $P
cargo test -p marginfi --lib --offline 2>&1 | grep -E "^test result|FAILED|failed|seed_demo" | head -8
echo "== existing tests only, with change"
cargo test -p marginfi --lib --offline -- --skip seed_demo 2>&1 | grep -E "^test result" | head -3
echo "== without change (all expected to pass)"
git apply -R $P
cargo test -p marginfi --lib --offline 2>&1 | grep -E "^test result|FAILED|failed" | head -5
git apply $P
