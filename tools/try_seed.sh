#!/bin/sh
# usage: try_seed.sh <tag...>   — apply /tmp/seed/<tag>.patch.diff to /repo, run the property's check, print the verdict, revert
for t in "$@"; do
  id=$(echo $t | cut -c1-3)
  echo "=== $t"
  cp /verif/evidence/$id.json /tmp/evidence_$id.keep 2>/dev/null
  if git -C /repo apply /tmp/seed/$t.patch.diff; then
    /verif/check $id 2>&1 | grep -i "failing input\|VIOLATION\|\[check\] C" | cut -c1-330 | head -3
    git -C /repo checkout -- .
    # the evidence file written on the changed tree is not evidence about /repo: put the previous one back
    cp /tmp/evidence_$id.keep /verif/evidence/$id.json 2>/dev/null
  else
    echo "patch does not apply"
  fi
done
# regenerate the source-derived tables from the restored tree (the last check left those of the changed tree behind)
for t in consts accounts skeleton txlists oracles; do python3 /verif/translator/$t.py >/dev/null 2>&1; done
(cd /verif/harness && CARGO_NET_OFFLINE=true cargo build --offline >/dev/null 2>&1)
# … and the model driver that embeds them
(cd /verif/lean && lake build driver >/dev/null 2>&1)
git -C /repo status --short | head -3
