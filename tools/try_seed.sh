#!/bin/sh
# usage: try_seed.sh <tag...>   — apply /tmp/seed/<tag>.patch.diff to /repo, run the property's check, print the verdict, revert
for t in "$@"; do
  id=$(echo $t | cut -c1-3)
  echo "=== $t"
  if git -C /repo apply /tmp/seed/$t.patch.diff; then
    /verif/check $id 2>&1 | grep -i "failing input\|VIOLATION\|\[check\] C" | cut -c1-330 | head -3
    git -C /repo checkout -- .
  else
    echo "patch does not apply"
  fi
done
git -C /repo status --short | head -3
