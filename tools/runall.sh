#!/bin/sh
# run every claimed check (quick by default) on the current /repo tree; prints one summary line per property
cd "$(dirname "$0")/.."
TIER=${1:-quick}
rc=0
for id in $(python3 -c "import json;print(' '.join(c['property_id'] for c in json.load(open('MANIFEST.json'))['checks']))"); do
  out=$(./check $id --tier $TIER 2>&1); r=$?
  echo "$out" | grep -E "KNOWN-FINDING|VIOLATION|\[check\] $id" | cut -c1-200
  [ $r -ne 0 ] && rc=1
done
exit $rc
