#!/bin/sh
# usage (inside `vp run --with-repo -- tools/on_repo_copy.sh <command…>`): point this snapshot of /verif at the copy of the
# repository in $VP_RUN_REPO (harness path dependencies, setup, translators), build, then run the command. /repo is not used.
cd "$(dirname "$0")/.."
R=${VP_RUN_REPO:?no repository copy}
export VERIF_REPO=$R
sed -i "s#\"/repo/#\"$R/#g" harness/Cargo.toml
sed -i "s#cp /repo/Cargo.lock#cp $R/Cargo.lock#" setup.sh
./setup.sh > setup.log 2>&1 || { echo "setup failed"; tail -5 setup.log; exit 2; }
exec "$@"
