#!/bin/sh
# usage: tools/reseed.sh [repo copy]   — re-run EVERY stored seeded change against the current machinery.
# Works on a COPY of the repository (default: $VP_RUN_REPO of `vp run --with-repo`), never on /repo: the harness's path
# dependencies and the translators are pointed at the copy. One line per seed: <seed> <property> caught | caught-no-input | MISSED
cd "$(dirname "$0")/.."
R=${1:-$VP_RUN_REPO}
[ -d "$R/programs/marginfi" ] || { echo "no repository copy at '$R'"; exit 2; }
export VERIF_REPO=$R
sed -i "s#\"/repo/#\"$R/#g" harness/Cargo.toml
sed -i "s#cp /repo/Cargo.lock#cp $R/Cargo.lock#" setup.sh
./setup.sh > reseed.setup.log 2>&1 || { echo "setup failed"; tail -5 reseed.setup.log; exit 2; }
i=0
for d in seeded/*/; do
  i=$((i+1))
  # (RESEED_STEP=k RESEED_OFFSET=j: only every k-th stored change, starting at the j-th)
  if [ $(( (i + ${RESEED_OFFSET:-0}) % ${RESEED_STEP:-1} )) -ne 0 ]; then continue; fi
  n=$(basename $d)
  p=$(python3 -c "import json;print(json.load(open('$d/meta.json'))['property'])")
  if git -C $R apply "$(pwd)/$d/patch.diff" 2>/dev/null; then
    out=$(./check $p 2>&1)
    if echo "$out" | grep -q "VIOLATION"; then
      if echo "$out" | grep "VIOLATION" | grep -q "no-failing-input-found"; then echo "$n $p caught-no-input"; else echo "$n $p caught"; fi
    else
      echo "$n $p MISSED"
    fi
    git -C $R checkout -- . 2>/dev/null
  else
    echo "$n $p patch-does-not-apply"
  fi
done
